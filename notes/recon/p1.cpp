#include "pgm/pgm_index.hpp"
#include "pgm/pgm_index_variants.hpp"
#include <random>
#include <cstdio>
#include <iostream>
template<class K, size_t E, size_t ER, class F=float>
size_t run(uint64_t seed, int iters){
  std::mt19937_64 g(seed); size_t bad=0;
  for(int it=0;it<iters;it++){
    size_t n = 1 + g()% (it%7==0? 3000: 40);
    std::vector<K> d(n);
    int mode=g()%5;
    K lo=std::numeric_limits<K>::lowest(), hi=std::numeric_limits<K>::max();
    for(auto&x:d){
      switch(mode){
        case 0: x = K(g()%50); break;
        case 1: x = K(g()); break;
        case 2: x = K(hi - 1 - K(g()%20)); break;
        case 3: x = K(lo + K(g()%20)); break;
        default: x = K((g()%4? g()%100 : g())); break;
      }
      if(x==hi) x=hi-1;
    }
    std::sort(d.begin(),d.end());
    pgm::PGMIndex<K,E,ER,F> idx(d.begin(),d.end());
    auto check=[&](K q){
      if(q==hi) return;
      auto r=idx.search(q);
      size_t g_lb=std::lower_bound(d.begin(),d.end(),q)-d.begin();
      bool ok = r.lo<=r.hi && r.hi<=n && r.hi-r.lo<=2*E+2;
      size_t l_lb = ok? std::lower_bound(d.begin()+r.lo,d.begin()+r.hi,q)-d.begin() : 0;
      bool present = g_lb<n && d[g_lb]==q;
      if(!ok || l_lb!=g_lb || (present && !(r.lo<=g_lb && g_lb<r.hi))){
        if(bad<5){ printf("BAD n=%zu q=%lld lo=%zu hi=%zu pos=%zu glb=%zu present=%d mode=%d\n",n,(long long)q,r.lo,r.hi,r.pos,g_lb,present,mode);
          if(n<30){for(auto x:d)printf("%lld ",(long long)x);puts("");}}
        bad++;
      }
    };
    for(auto x:d){check(x); if(x>lo)check(x-1); check(x+1);}
    check(lo); check(hi-1); check(K(g()));
  }
  return bad;
}
int main(int argc,char**argv){
  uint64_t s=argc>1?atoll(argv[1]):1;
  printf("u64,1,0: %zu\n",run<uint64_t,1,0>(s,3000));
  printf("u64,1,1: %zu\n",run<uint64_t,1,1>(s,3000));
  printf("u64,4,4: %zu\n",run<uint64_t,4,4>(s,3000));
  printf("i64,2,2: %zu\n",run<int64_t,2,2>(s,3000));
  printf("i32,2,2: %zu\n",run<int32_t,2,2>(s,3000));
  printf("u32,3,0,double: %zu\n",run<uint32_t,3,0,double>(s,3000));
  printf("u8,1,1: %zu\n",run<uint8_t,1,1>(s,3000));
  printf("i8,2,1: %zu\n",run<int8_t,2,1>(s,3000));
  printf("i16,2,1: %zu\n",run<int16_t,2,1>(s,3000));
  printf("u16,2,100: %zu\n",run<uint16_t,2,100>(s,3000));
}

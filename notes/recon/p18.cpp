#include "cpgm.h"
#include "gen.hpp"
#include <map>
int main(int argc,char**argv){ uint64_t s=argc>1?atoll(argv[1]):1; std::mt19937_64 g(s); size_t bad=0,cnt=0;
  for(int i=0;i<3000;i++){ auto d=gen_data<int64_t>(g,200); size_t eps=1+g()%(g()%2?8:4096); auto*p=pgm_index_int64_create(d.data(),d.size(),eps); if(!p){printf("NULL create\n");bad++;continue;}
    auto chk=[&](int64_t q){ if(q==INT64_MAX)return; cnt++; auto r=pgm_index_int64_search(p,q); size_t n=d.size(); size_t glb=std::lower_bound(d.begin(),d.end(),q)-d.begin();
      bool ok=r.lo<=r.hi&&r.hi<=n&&r.hi-r.lo<=2*eps+2; size_t l=ok?std::lower_bound(d.begin()+r.lo,d.begin()+r.hi,q)-d.begin():0; bool pres=glb<n&&d[glb]==q;
      if(!ok||l!=glb||(pres&&!(r.lo<=glb&&glb<r.hi))){ if(bad++<5)printf("BAD n=%zu eps=%zu q=%lld lo=%zu hi=%zu glb=%zu\n",n,eps,(long long)q,r.lo,r.hi,glb);} };
    for(auto x:d){chk(x);chk(x-1);chk(x+1);} chk(INT64_MIN);chk(INT64_MAX-1);chk(g());
    pgm_index_int64_destroy(p);
  }
  printf("static C: bad=%zu of %zu\n",bad,cnt);
  // dynamic
  for(int h=0;h<200;h++){ std::map<uint32_t,uint32_t> m; std::vector<pair_uint32_t> bulk; size_t nb=g()%50; for(size_t i=0;i<nb;i++) bulk.push_back({uint32_t(g()%300),uint32_t(g()%1000)}); std::sort(bulk.begin(),bulk.end(),[](auto&a,auto&b){return a.first<b.first;}); for(auto&b:bulk)m.insert({b.first,b.second});
    auto*p= nb? dynamic_pgm_index_uint32_create(bulk.data(),bulk.size()) : dynamic_pgm_index_uint32_create_empty();
    for(int o=0;o<2000;o++){ uint32_t k=g()%300; if(g()%3){uint32_t v=g()%1000; dynamic_pgm_index_uint32_insert_or_assign(p,k,v); m[k]=v;} else {dynamic_pgm_index_uint32_erase(p,k); m.erase(k);} 
      if(o%50==0){ uint32_t q=g()%302,v=0; bool f=dynamic_pgm_index_uint32_find(p,q,&v); auto mi=m.find(q); if(f!=(mi!=m.end())||(f&&v!=mi->second)){ if(bad++<5)printf("BAD dyn find\n"); }
        auto it=dynamic_pgm_index_uint32_lower_bound(p,q); auto ml=m.lower_bound(q); uint32_t kk,vv; size_t c=0; while(dynamic_pgm_index_uint32_iterator_next(p,it,&kk,&vv)){ if(ml==m.end()||ml->first!=kk||ml->second!=vv){ if(bad++<5)printf("BAD dyn iter h=%d o=%d\n",h,o); break;} ++ml; c++; } if(ml!=m.end()&&c>0){ /* may have broken */ }
        if(ml!=m.end()) { if(bad++<5)printf("BAD dyn iter short h=%d o=%d\n",h,o);} dynamic_pgm_index_uint32_iterator_destroy(it);
        if(dynamic_pgm_index_uint32_size(p)!=m.size()){ if(bad++<5)printf("BAD dyn size\n"); }
        auto b=dynamic_pgm_index_uint32_begin(p); size_t c2=0; while(dynamic_pgm_index_uint32_iterator_next(p,b,&kk,&vv)) c2++; dynamic_pgm_index_uint32_iterator_destroy(b); if(c2!=m.size()){ if(bad++<5)printf("BAD dyn begin count %zu vs %zu\n",c2,m.size()); }
      } }
    dynamic_pgm_index_uint32_destroy(p); }
  printf("dynamic C: bad=%zu\n",bad);
}

#include <omp.h>
static int fake_procs=16;
extern "C" int omp_get_num_procs(void){ return fake_procs; }
#include "pgm/pgm_index.hpp"
#include "gen.hpp"
template<class K,size_t E,size_t ER> struct X: pgm::PGMIndex<K,E,ER>{ using B=pgm::PGMIndex<K,E,ER>; using B::B;
  void around(K q){ auto it=std::upper_bound(this->segments.begin(),this->segments.begin()+this->segments_count(),q); --it; for(int j=-1;j<=1;j++){ auto&s=*(it+j); printf("   seg key=%llu slope=%g icpt=%u\n",(unsigned long long)s.key,(double)s.slope,s.intercept);} } };
int main(int argc,char**argv){ using K=uint64_t; uint64_t seed=1; std::mt19937_64 g(seed); size_t bad=0; K hi=~0ull;
  for(int i=0;i<40;i++){
    size_t n=(1u<<15)+g()%40000; std::vector<K> d(n); int mode=g()%4; K base=K(g());
    for(auto&x:d){ switch(mode){case 0: x=K(g()%2000);break; case 1: x=K(g());break; case 2: x=K(base+K(g()%100000)); break; default: x=K(g()%3?g()%500:g()); } if(x==hi)x=hi-1; }
    std::sort(d.begin(),d.end());
    int t=1+g()%20; fake_procs=32; omp_set_num_threads(t);
    X<K,1,1> idx(d.begin(),d.end()); auto g2=g;
    size_t b0=bad; check_static<K,decltype(idx),1>(idx,d,g,"p",bad);
    if(bad!=b0){ printf("iter %d n=%zu t=%d mode=%d chunk=%zu\n",i,n,t,mode,n/t); K q=111961435736915769ull; size_t glb=std::lower_bound(d.begin(),d.end(),q)-d.begin();
      printf("neighbors: "); for(size_t j=glb-6;j<glb+3;j++) printf("[%zu]=%llu ",j,(unsigned long long)d[j]); puts(""); idx.around(q);
      omp_set_num_threads(1); X<K,1,1> seq(d.begin(),d.end()); auto r=seq.search(q); printf("sequential: lo=%zu hi=%zu\n",r.lo,r.hi); seq.around(q); break; }
  }
}

#include <sys/mman.h>
#include <unistd.h>
#include <cstdio>
#include <cstdlib>
#include <cstring>
#include <csignal>
#include <csetjmp>
// guard-page mmap shim, injected by macro before the library header is included
static void* verif_mmap(void*addr,size_t len,int prot,int flags,int fd,off_t off){
  size_t pg=sysconf(_SC_PAGESIZE); size_t span=(len+pg-1)/pg*pg;
  char*base=(char*)::mmap(nullptr,span+pg,PROT_NONE,MAP_PRIVATE|MAP_ANONYMOUS,-1,0); if(base==MAP_FAILED) return MAP_FAILED;
  void*p=::mmap(base,len,prot,flags|MAP_FIXED,fd,off); return p; }
static int verif_munmap(void*p,size_t len){ size_t pg=sysconf(_SC_PAGESIZE); size_t span=(len+pg-1)/pg*pg; return ::munmap(p,span+pg); }
#define mmap verif_mmap
#define munmap verif_munmap
#include "pgm/pgm_index.hpp"
#include "pgm/pgm_index_variants.hpp"
#undef mmap
#undef munmap
static int asan_reports=0; static const char*current_case="none";
extern "C" void __asan_on_error(){ asan_reports++; fprintf(stderr,"ASAN-WITNESS case=%s\n",current_case); }
static sigjmp_buf jb; static void segv(int){ siglongjmp(jb,1); }
int main(){
  // 1. ASan recover mode: deliberate OOB via library: MultidimensionalPGMIndex range reaching the end (known F8)
  std::vector<std::tuple<uint32_t,uint32_t>> pts{{1,1},{2,2},{3,3}};
  pgm::MultidimensionalPGMIndex<2,uint32_t,4> md(pts.begin(),pts.end());
  current_case="md-range-to-end"; size_t c=0; for(auto it=md.range({0,0},{3,3}); it!=md.end(); ++it) c++; printf("range count=%zu asan_reports=%d (process continued)\n",c,asan_reports);
  // 2. guard-page mmap: file ending exactly at page boundary; over-read faults
  size_t pg=4096; using M=pgm::MappedPGMIndex<uint32_t,4,0>;
  std::vector<uint32_t> d; for(uint32_t i=0;i<3000;i++) d.push_back(i*3);
  { M probe(d.begin(),d.end(),"/tmp/explore/g.map"); size_t fb=probe.file_size_in_bytes(); size_t rem=fb%pg; size_t add=(pg-rem)%pg/4; for(size_t i=0;i<add;i++) d.push_back(d.back()+3); }
  M m(d.begin(),d.end(),"/tmp/explore/g.map"); printf("file bytes=%zu mod page=%zu\n",m.file_size_in_bytes(),m.file_size_in_bytes()%pg);
  printf("ub=%zu\n",(size_t)(m.upper_bound(d.back())-m.begin()));
  signal(SIGSEGV,segv); signal(SIGBUS,segv);
  if(sigsetjmp(jb,1)==0){ volatile uint32_t x=*(m.end()); printf("over-read did NOT fault: %u\n",x);} else printf("over-read of one element past end() faulted as intended\n");
}

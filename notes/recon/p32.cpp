#include <set>
#include <map>
#include <vector>
#include <string>
#include <random>
#include <cstdio>
#include <algorithm>
#define private public
#include "pgm/pgm_index_dynamic.hpp"
#undef private
#include <unistd.h>
template<class V> V mkv(uint64_t x){ if constexpr(std::is_same_v<V,std::string>) return std::to_string(x); else if constexpr(std::is_pointer_v<V>){ static std::remove_pointer_t<V> pool[1000]; return &pool[x%1000]; } else return V(x); }
#include <sys/wait.h>
template<class D> const char* inv(const D&x){
  static char buf[256];
  size_t nl=x.levels.size();
  for(size_t li=0;li<nl;li++){ int lev=li+x.min_level; auto&L=x.levels[li];
    for(size_t j=1;j<L.size();j++) if(!(L[j-1].first<L[j].first)){ snprintf(buf,256,"level %d not strictly sorted at %zu",lev,j); return buf; }
    size_t cap= li==0? x.buffer_max_size : x.max_size(lev);
    if(L.size()>cap){ snprintf(buf,256,"level %d size %zu > cap %zu",lev,L.size(),cap); return buf; }
    if(lev>=x.used_levels && !L.empty()){ snprintf(buf,256,"level %d beyond used_levels %d holds data",lev,(int)x.used_levels); return buf; }
    if(lev>=x.min_index_level){ size_t pi=lev-x.min_index_level;
      if(!L.empty()){ if(pi>=x.pgms.size()){ snprintf(buf,256,"level %d nonempty but no pgm slot",lev); return buf; }
        auto&p=x.pgms[pi]; if(p.n!=L.size()){ snprintf(buf,256,"level %d pgm.n %zu != size %zu",lev,p.n,L.size()); return buf; }
        if(p.first_key!=L[0].first){ snprintf(buf,256,"level %d pgm first_key mismatch",lev); return buf; }
        // index answers for all keys of level
        for(size_t j=0;j<L.size();j++){ auto r=p.search(L[j].first); if(!(r.lo<=j&&j<r.hi)){ snprintf(buf,256,"level %d pgm misses key idx %zu",lev,j); return buf; } }
      } else if(pi<x.pgms.size()){ auto&p=x.pgms[pi]; if(p.segments.size()!=0){ snprintf(buf,256,"level %d empty but pgm not reset (segs %zu)",lev,p.segments.size()); return buf; } }
    }
  }
  return nullptr;
}
template<class K,class V,class P> int run(const char*tag,uint64_t seed,int hist,int base,int bl,int il,uint64_t keyspace,int maxops){
  std::mt19937_64 g(seed); size_t bad=0, ops=0; int maxused=0;
  for(int h=0;h<hist;h++){
    std::vector<std::pair<K,V>> bulk; size_t nb = g()%3==0?0: g()%200;
    for(size_t i=0;i<nb;i++) bulk.push_back({K(g()%keyspace), mkv<V>(g()%1000)});
    std::stable_sort(bulk.begin(),bulk.end(),[](auto&a,auto&b){return a.first<b.first;});
    std::map<K,V> m; for(auto&p:bulk) m.insert(p);
    pgm::DynamicPGMIndex<K,V,P> x(bulk.begin(),bulk.end(),base,bl,il);
    if(auto e=inv(x)){ if(bad++<5) printf("BAD[%s] INV after bulk: %s (nb=%zu)\n",tag,e,nb);} 
    int nops = g()%maxops; int pattern=g()%4; K seq=K(g()%keyspace);
    for(int o=0;o<nops;o++){
      K k; if(pattern==0) k=K(g()%keyspace); else if(pattern==1) k=seq++%keyspace; else if(pattern==2) k=(seq--+keyspace)%keyspace; else k=K(g()%(1+keyspace/8));
      int act=g()%10; if(pattern==3&&o>nops/2) act=9;
      if(act<6){ V v=mkv<V>(g()%1000); x.insert_or_assign(k,v); m[k]=v;} else {x.erase(k); m.erase(k);} ops++;
      maxused=std::max<int>(maxused,x.used_levels-x.min_level);
      if(auto e=inv(x)){ if(bad++<5) printf("BAD[%s] INV h=%d o=%d: %s\n",tag,h,o,e); }
      if(o%11==0||o==nops-1){
        for(int t=0;t<4;t++){ K k=K(g()%(keyspace+2)); auto it=x.find(k); auto mi=m.find(k); bool f=it!=x.end();
          if(f!=(mi!=m.end())||(f&&it->second!=mi->second)){ if(bad++<5) printf("BAD[%s] find h=%d o=%d\n",tag,h,o);} 
          auto lb=x.lower_bound(k); auto ml=m.lower_bound(k); bool lf=lb!=x.end();
          if(lf!=(ml!=m.end())||(lf&&(lb->first!=ml->first||lb->second!=ml->second))){ if(bad++<5) printf("BAD[%s] lb h=%d o=%d\n",tag,h,o);} }
        std::vector<std::pair<K,V>> all; for(auto it=x.begin(); it!=x.end(); ++it){ all.push_back({it->first,it->second}); if(all.size()>m.size()+3)break; }
        if(all!=std::vector<std::pair<K,V>>(m.begin(),m.end())){ if(bad++<5) printf("BAD[%s] full iteration h=%d o=%d got %zu exp %zu\n",tag,h,o,all.size(),m.size()); }
        if(x.size()!=m.size()||x.empty()!=m.empty()){ if(bad++<5) printf("BAD[%s] size h=%d o=%d\n",tag,h,o);} 
        K lo=K(g()%keyspace), hi=K(lo+g()%(keyspace-lo)); auto r=x.range(lo,hi); std::vector<std::pair<K,V>> e; for(auto q=m.lower_bound(lo); q!=m.end()&&q->first<=hi;++q) e.push_back(*q);
        if(r!=e){ if(bad++<5) printf("BAD[%s] range h=%d o=%d\n",tag,h,o);} 
      }
    }
  }
  printf("%s: bad=%zu ops=%zu max_levels_used=%d\n",tag,bad,ops,maxused); return 0;
}
#define R(...) if(fork()==0){ __VA_ARGS__; _exit(0);} 
int main(int argc,char**argv){ setvbuf(stdout,0,_IONBF,0); uint64_t s=argc>1?atoll(argv[1]):1; using namespace pgm;
  R(run<uint32_t,std::string,PGMIndex<uint32_t,4>>("u32->string b2 bl1 il2",s,100,2,1,2,3000,2000))
  R(run<uint32_t,uint32_t*,PGMIndex<uint32_t,8>>("u32->ptr b4 bl1 il2",s,100,4,1,2,3000,2000))
  R(run<int64_t,uint16_t,PGMIndex<int64_t,64,64>>("i64->u16 b2 bl2 il3",s,100,2,2,3,3000,2000))
  R(run<uint32_t,std::string,PGMIndex<uint32_t,1,0>>("u32->string b8 bl1 il2",s,50,8,1,2,100000,5000))
  int st; while(wait(&st)>0) if(!WIFEXITED(st)||WEXITSTATUS(st)) printf("child died st=%x\n",st);
}

// prototype of C03/C04 monitors on make_segmentation{,_par}: exact residual, partition, maximality, OPT, spacing, counts
#include <omp.h>
static int fake_procs=16;
extern "C" int omp_get_num_procs(void){ return fake_procs; }
#include "pgm/piecewise_linear_model.hpp"
#include <random>
#include <cstdio>
#include <vector>
#include <algorithm>
typedef __int128 I;
struct P{ I x,y; };
static I cross(const P&o,const P&a,const P&b){ return (a.x-o.x)*(b.y-o.y)-(a.y-o.y)*(b.x-o.x); }
static bool feasible(const P*pts,size_t m,I eps){
  if(m<=1) return true; std::vector<P> g,h;
  for(size_t i=0;i<m;i++){ P lo{pts[i].x, pts[i].y-eps<0?0:pts[i].y-eps}, up{pts[i].x,pts[i].y+eps};
    while(g.size()>=2 && cross(g[g.size()-2],g.back(),lo)>=0) g.pop_back(); g.push_back(lo);
    while(h.size()>=2 && cross(h[h.size()-2],h.back(),up)<=0) h.pop_back(); h.push_back(up);} 
  auto ok=[&](const std::vector<P>&poly,const P&v,bool is_g){ if(poly.size()==1) return is_g? poly[0].y<=v.y:poly[0].y>=v.y; size_t a=0,b=poly.size()-1; while(b-a>1){size_t mid=(a+b)/2; if(poly[mid].x<=v.x)a=mid; else b=mid;} const P&A=poly[a],&B=poly[b]; I l=(B.y-A.y)*(v.x-A.x), r=(v.y-A.y)*(B.x-A.x); return is_g? l<=r : l>=r; };
  for(auto&v:h) if(!ok(g,v,true)) return false; for(auto&v:g) if(!ok(h,v,false)) return false; return true; }
static size_t opt_count(const std::vector<P>&pts,I eps){ size_t i=0,c=0,n=pts.size(); while(i<n){ size_t len=1; while(i+len<n && feasible(&pts[i],std::min(2*len,n-i),eps)){ len=std::min(2*len,n-i); if(i+len>=n)break;} // exponential
    size_t lo=len, hi=std::min(2*len,n-i); // feasible(lo) true; find max feasible in [lo,hi]
    while(lo<hi){ size_t mid=(lo+hi+1)/2; if(feasible(&pts[i],mid,eps)) lo=mid; else hi=mid-1; } i+=lo; c++; } return c; }
int main(int argc,char**argv){ uint64_t seed=argc>1?atoll(argv[1]):1; std::mt19937_64 r(seed); using K=uint64_t; size_t bad=0,cases=0,segs_total=0;
  for(int it=0;it<60;it++){
    bool big = it%2; size_t n= big? (1u<<15)+r()%60000 : 1+r()%3000; size_t eps= r()%4==0?0: (r()%3==0? 64: 1+r()%8);
    std::vector<K> d(n); int mode=r()%4; K base=r(); for(auto&x:d){ x= mode==0? r()%(n/2+1) : mode==1? r() : mode==2? base+r()%(4*n) : (r()%3? r()%500: r()); if(x==~0ull)x--; } std::sort(d.begin(),d.end());
    int t= big? 1+r()%20 : 1; fake_procs=32; omp_set_num_threads(t); size_t c= (t==1||n<(1u<<15))?1:t;
    using Seg=pgm::internal::OptimalPiecewiseLinearModel<K,size_t>::CanonicalSegment; std::vector<Seg> segs;
    auto in=[&](size_t i){return d[i];}; auto out=[&](const Seg&s){segs.push_back(s);};
    size_t cnt= pgm::internal::make_segmentation_par(n,eps,in,out); cases++; segs_total+=segs.size();
    if(cnt!=segs.size()){ printf("BAD count return %zu vs %zu\n",cnt,segs.size()); bad++; }
    // reconstruct points by sequential rule (no hook in this prototype)
    std::vector<P> pts; pts.push_back({(I)d[0],0}); for(size_t i=1;i+1<n;i++){ if(d[i]==d[i-1]){ if(d[i]+1<d[i+1]) pts.push_back({(I)d[i]+1,(I)i}); } else pts.push_back({(I)d[i],(I)i}); } if(n>=2&&d[n-1]!=d[n-2]) pts.push_back({(I)d[n-1],(I)n-1}); pts.push_back({(I)d[n-1]+1,(I)n});
    // partition by first_x
    for(size_t j=1;j<segs.size();j++) if(!(segs[j-1].get_first_x()<segs[j].get_first_x())){ printf("BAD order\n"); bad++; }
    size_t pi=0; size_t nonmax=0; std::vector<size_t> startrank;
    for(size_t j=0;j<segs.size();j++){ I fx=segs[j].get_first_x(); I nx= j+1<segs.size()? (I)segs[j+1].get_first_x() : ((I)1<<100);
      size_t b=pi; while(pi<pts.size()&&pts[pi].x<nx) pi++; if(b==pi||pts[b].x!=fx){ if(bad++<5)printf("BAD partition it=%d seg %zu (t=%d n=%zu) fx=%llu firstpt=%llu\n",it,j,t,n,(unsigned long long)fx,(unsigned long long)pts[b].x); continue;}
      startrank.push_back((size_t)pts[b].y);
      auto [slope,icpt]=segs[j].get_floating_point_segment(segs[j].get_first_x());
      for(size_t q=b;q<pi;q++){ long double pred=slope*(long double)(pts[q].x-fx)+(long double)icpt; long double e=pred-(long double)pts[q].y; if(e<0)e=-e; if(e>eps+0.5L+1e-6L){ if(bad++<5)printf("BAD residual %Lg eps=%zu it=%d\n",e,eps,it);} }
      if(!feasible(&pts[b],pi-b,eps)){ if(bad++<5)printf("BAD infeasible own\n"); }
      if(pi<pts.size() && feasible(&pts[b],pi-b+1,eps)) nonmax++; }
    if(pi!=pts.size()){ if(bad++<5) printf("BAD leftover points\n"); }
    if(nonmax>c-1){ if(bad++<5) printf("BAD nonmaximal %zu > c-1=%zu (t=%d)\n",nonmax,c-1,t); }
    size_t opt= n<200000? opt_count(pts,eps):0; if(opt && !(segs.size()>=opt && segs.size()<=opt+c-1)){ if(bad++<5) printf("BAD count %zu vs OPT %zu c=%zu\n",segs.size(),opt,c);} 
    if(segs.size()> n/(2*eps+1)+c){ if(bad++<5) printf("BAD bound %zu > %zu\n",segs.size(), n/(2*eps+1)+c);} 
    size_t close=0; for(size_t j=1;j<startrank.size();j++) if(startrank[j]-startrank[j-1]<=2*eps) close++; if(close>c-1){ if(bad++<5) printf("BAD spacing close=%zu c=%zu\n",close,c);} 
  }
  printf("cases=%zu segs=%zu bad=%zu\n",cases,segs_total,bad);
}

#include "pgm/pgm_index.hpp"
#include "gen.hpp"
#include <unistd.h>
#include <sys/wait.h>
template<class K,size_t E,size_t ER,class F=float> struct X: pgm::PGMIndex<K,E,ER,F>{
  using B=pgm::PGMIndex<K,E,ER,F>; using B::B;
  // returns max deviation over levels for key
  size_t dev(K key,size_t&visited_max) const{ K k=std::max(this->first_key,key); size_t worst=0;
    auto it=this->segments.begin()+*(this->levels_offsets.end()-2);
    for(int l=int(this->height())-2;l>=0;--l){ auto lb=this->segments.begin()+this->levels_offsets[l];
      size_t cnt=this->levels_offsets[l+1]-this->levels_offsets[l]-1; // incl extra, excl sentinel
      size_t pos=std::min<size_t>((*it)(k),std::next(it)->intercept);
      // true index: rightmost seg with key<=k among cnt
      size_t t=0; for(size_t i=0;i<cnt;i++) if(lb[i].key<=k) t=i;
      size_t d= t>pos? t-pos: pos-t; worst=std::max(worst,d); it=lb+t; }
    return worst; }
  void levels(std::vector<size_t>&v)const{ for(size_t l=0;l+1<this->levels_offsets.size();l++) v.push_back(this->levels_offsets[l+1]-this->levels_offsets[l]); }
};
template<class K,size_t E,size_t ER> void run(const char*tag,uint64_t seed,int iters){
  std::mt19937_64 g(seed); size_t bad=0,cnt=0,maxdev=0; K hi=std::numeric_limits<K>::max(),lo=std::numeric_limits<K>::lowest();
  for(int i=0;i<iters;i++){ auto d=gen_data<K>(g, 400); X<K,E,ER> x(d.begin(),d.end()); size_t vm=0;
    auto chk=[&](K q){ if(q==hi)return; cnt++; size_t dv=x.dev(q,vm); maxdev=std::max(maxdev,dv); if(dv>ER+1){ if(bad++<5){ printf("BAD[%s] n=%zu q=%llu dev=%zu h=%zu\n",tag,d.size(),(unsigned long long)q,dv,x.height()); } } };
    for(auto v:d){chk(v); if(v>lo)chk(v-1); chk(v+1);} chk(lo); chk(hi-1); chk(K(g())); chk(K(d.back()+(hi-d.back())/2));
  }
  printf("%s: bad=%zu of %zu maxdev=%zu\n",tag,bad,cnt,maxdev);
}
#define R(...) if(fork()==0){ __VA_ARGS__; _exit(0);} 
int main(int argc,char**argv){ setvbuf(stdout,0,_IONBF,0); uint64_t s=argc>1?atoll(argv[1]):1; int it=1500;
  R(run<uint64_t,1,1>("u64,1,1",s,it)) R(run<uint32_t,1,2>("u32,1,2",s,it)) R(run<int64_t,2,1>("i64,2,1",s,it)) R(run<uint16_t,1,1>("u16,1,1",s,it)) R(run<uint64_t,1,4>("u64,1,4",s,it))
  int st; while(wait(&st)>0) if(!WIFEXITED(st)||WEXITSTATUS(st)) printf("child died st=%x\n",st);
}

#include "pgm/pgm_index.hpp"
#include "pgm/pgm_index_variants.hpp"
#include "pgm/pgm_index_dynamic.hpp"
#include <cstdio>
#include <memory>
#include <random>
int main(int argc,char**argv){
  setvbuf(stdout,0,_IONBF,0);
  std::mt19937_64 g(1); std::vector<uint32_t> d(5000); for(auto&x:d)x=g()%100000; std::sort(d.begin(),d.end());
  int which=atoi(argv[1]);
  if(which==0){ using I=pgm::CompressedPGMIndex<uint32_t,4,2>; auto a=std::make_unique<I>(d.begin(),d.end()); I b(*a); auto r0=a->search(d[100]); a.reset(); std::vector<char> junk(1<<20,0x5a); auto r=b.search(d[100]); printf("compressed copy: %zu %zu vs %zu %zu\n",r.lo,r.hi,r0.lo,r0.hi);}
  if(which==1){ using I=pgm::CompressedPGMIndex<uint32_t,4,2>; auto a=std::make_unique<I>(d.begin(),d.end()); I b(std::move(*a)); a.reset(); auto r=b.search(d[100]); printf("compressed move: %zu %zu\n",r.lo,r.hi);}
  if(which==2){ using I=pgm::EliasFanoPGMIndex<uint32_t,4>; auto a=std::make_unique<I>(d.begin(),d.end()); I b(*a); I c; c=*a; I e(std::move(*a)); a.reset(); auto r=b.search(d[100]); auto r2=c.search(d[100]); auto r3=e.search(d[100]); printf("ef: %zu %zu %zu\n",r.lo,r2.lo,r3.lo);}
  if(which==3){ using I=pgm::BucketingPGMIndex<uint32_t,4,64>; auto a=std::make_unique<I>(d.begin(),d.end()); I b(*a); I c; c=*a; I e(std::move(*a)); a.reset(); auto r=b.search(d[100]); auto r2=c.search(d[100]); auto r3=e.search(d[100]); printf("bucketing: %zu %zu %zu\n",r.lo,r2.lo,r3.lo);}
  if(which==4){ using I=pgm::DynamicPGMIndex<uint32_t,uint32_t,pgm::PGMIndex<uint32_t,4>>; std::vector<std::pair<uint32_t,uint32_t>> v; for(auto x:d) v.push_back({x,x+1}); auto a=std::make_unique<I>(v.begin(),v.end(),2,1,2); I b(*a); a->insert_or_assign(7,7); a.reset(); auto it=b.find(d[100]); printf("dyn copy: %u count7=%zu size=%zu\n",it->second,b.count(7),b.size()); auto it2=b.begin(); ++it2; printf("%u\n",it2->first); }
  if(which==5){ using I=pgm::CompressedPGMIndex<uint32_t,4,2>; I c; { I a(d.begin(),d.end()); c=a; } auto r=c.search(d[100]); printf("compressed assign: %zu %zu\n",r.lo,r.hi);}
  if(which==6){ using I=pgm::MultidimensionalPGMIndex<2,uint32_t,4>; std::vector<std::tuple<uint32_t,uint32_t>> p; for(auto x:d)p.push_back({x%1000,x/1000}); auto a=std::make_unique<I>(p.begin(),p.end()); I b(*a); a.reset(); printf("md copy contains %d\n",b.contains(p[5])); size_t c=0; for(auto it=b.range({0,0},{500,50}); it!=b.end(); ++it) c++; printf("range %zu\n",c);} 
}

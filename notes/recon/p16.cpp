#include <omp.h>
static int fake_procs=16;
extern "C" int omp_get_num_procs(void){ return fake_procs; }
#include "pgm/pgm_index.hpp"
#include "gen.hpp"
template<class K,size_t E,size_t ER> void run(const char*tag,uint64_t seed,int iters){
  std::mt19937_64 g(seed); size_t bad=0,cnt=0; K hi=std::numeric_limits<K>::max();
  for(int i=0;i<iters;i++){
    size_t n=(1u<<15)+g()%40000; std::vector<K> d(n); int mode=g()%4; K base=K(g());
    for(auto&x:d){ switch(mode){case 0: x=K(g()%2000);break; case 1: x=K(g());break; case 2: x=K(base+K(g()%100000)); break; default: x=K(g()%3?g()%500:g()); } if(x==hi)x=hi-1; }
    std::sort(d.begin(),d.end());
    int t=1+g()%20; fake_procs=32; omp_set_num_threads(t);
    pgm::PGMIndex<K,E,ER> idx(d.begin(),d.end());
    cnt+=check_static<K,decltype(idx),E>(idx,d,g,tag,bad);
  }
  printf("%s: bad=%zu of %zu\n",tag,bad,cnt);
}
int main(int argc,char**argv){ uint64_t s=argc>1?atoll(argv[1]):1;
  run<uint64_t,1,1>("par u64,1,1",s,40); run<uint32_t,4,0>("par u32,4,0",s,40); run<int64_t,2,4>("par i64,2,4",s,40);
  fake_procs=32; omp_set_num_threads(20); printf("max_threads=%d procs=%d\n",omp_get_max_threads(),omp_get_num_procs());
}

#include "pgm/pgm_index.hpp"
#include "pgm/pgm_index_variants.hpp"
#include "gen.hpp"
#include <map>
#include <string>
#include <unistd.h>
#include <sys/wait.h>
template<class K,class Idx,size_t E> void run(const char*tag,uint64_t seed,int iters){
  std::mt19937_64 g(seed); size_t bad=0,cnt=0; std::map<std::string,int> exc;
  for(int i=0;i<iters;i++){ auto d=gen_data<K>(g);
    try{ Idx idx(d.begin(),d.end()); cnt+=check_static<K,Idx,E>(idx,d,g,tag,bad);}
    catch(std::exception&e){ if(!exc[e.what()]++ ){ printf("EXC[%s] %s n=%zu first=%llu last=%llu\n",tag,e.what(),d.size(),(unsigned long long)d[0],(unsigned long long)d.back()); if(d.size()<40){for(auto x:d)printf("%llu ",(unsigned long long)x);puts("");} } }
  }
  printf("%s: bad=%zu of %zu; exceptions:",tag,bad,cnt); for(auto&[k,v]:exc)printf(" [%s x%d]",k.c_str(),v); puts(""); fflush(stdout);
}
#define R(K,IDX,E,TAG) if(fork()==0){ using I=typename Unwrap<void IDX>::type; run<K,I,E>(TAG,s,it); _exit(0);}
template<class T> struct Unwrap; template<class T> struct Unwrap<void(T)>{using type=T;};
int main(int argc,char**argv){ uint64_t s=argc>1?atoll(argv[1]):1; int it=1500;
  using namespace pgm;
#if WHICH==0
  R(uint64_t,(CompressedPGMIndex<uint64_t,2,2>),2,"C u64,2,2")
  R(uint32_t,(CompressedPGMIndex<uint32_t,1,1>),1,"C u32,1,1")
  R(uint16_t,(CompressedPGMIndex<uint16_t,4,4>),4,"C u16,4,4")
  R(uint8_t,(CompressedPGMIndex<uint8_t,1,1>),1,"C u8,1,1")
  R(uint32_t,(CompressedPGMIndex<uint32_t,8,4>),8,"C u32,8,4")
#elif WHICH==1
  R(uint64_t,(CompressedPGMIndex<uint64_t,2,0>),2,"C u64,2,0")
  R(uint32_t,(CompressedPGMIndex<uint32_t,4,0>),4,"C u32,4,0")
#elif WHICH==2
  R(uint64_t,(CompressedPGMIndex<uint64_t,2,256>),2,"C u64,2,256")
  R(uint32_t,(CompressedPGMIndex<uint32_t,2,256>),2,"C u32,2,256")
#elif WHICH==4
  R(uint64_t,(EliasFanoPGMIndex<uint64_t,2>),2,"EF u64,2")
  R(uint32_t,(EliasFanoPGMIndex<uint32_t,1>),1,"EF u32,1")
  R(uint16_t,(EliasFanoPGMIndex<uint16_t,3>),3,"EF u16,3")
  R(uint32_t,(EliasFanoPGMIndex<uint32_t,16>),16,"EF u32,16")
#endif
  int st; while(wait(&st)>0) if(!WIFEXITED(st)||WEXITSTATUS(st)) printf("child died st=%x\n",st);
}

#include "pgm/pgm_index.hpp"
#include "pgm/pgm_index_variants.hpp"
#include "gen.hpp"
#include <unistd.h>
#include <sys/wait.h>
#include <fstream>
#include <iterator>
static std::string slurp(const std::string&f){ std::ifstream in(f,std::ios::binary); return std::string(std::istreambuf_iterator<char>(in),{}); }
template<class K,size_t E,size_t ER> void run(const char*tag,uint64_t seed,int iters){
  std::mt19937_64 g(seed); size_t bad=0,cnt=0; K hi=std::numeric_limits<K>::max(), lo=std::numeric_limits<K>::lowest();
  std::string f1="/tmp/explore/m1."+std::to_string(getpid()), f2="/tmp/explore/m2."+std::to_string(getpid()), raw="/tmp/explore/raw."+std::to_string(getpid());
  for(int i=0;i<iters;i++){ auto d=gen_data<K>(g,80);
    // make long runs sometimes
    if(g()%2){ size_t p=g()%d.size(); size_t len=1+g()%(4*E+10); for(size_t j=p;j<std::min(d.size(),p+len);j++) d[j]=d[p]; std::sort(d.begin(),d.end()); }
    { std::ofstream o(raw,std::ios::binary); o.write((char*)d.data(),d.size()*sizeof(K)); }
    using M=pgm::MappedPGMIndex<K,E,ER>;
    M a(d.begin(),d.end(),f1); M b(raw,f2); 
    std::string s1=slurp(f1), s2=slurp(f2);
    if(s1!=s2){ if(bad++<5) printf("BAD[%s] files differ n=%zu sizes %zu %zu\n",tag,d.size(),s1.size(),s2.size()); }
    M c(f1); M c2(f2);
    if(slurp(f1)!=s1){ if(bad++<5) printf("BAD[%s] reopen altered file\n",tag);} 
    auto chk=[&](M&m,const char*w,K q){ if(q==hi) return; cnt++;
      size_t elb=std::lower_bound(d.begin(),d.end(),q)-d.begin(), eub=std::upper_bound(d.begin(),d.end(),q)-d.begin();
      size_t glb=m.lower_bound(q)-m.begin(), gub=m.upper_bound(q)-m.begin();
      size_t ec=eub-elb, gc=m.count(q); bool eb=ec>0, gb=m.contains(q);
      if(elb!=glb||eub!=gub||ec!=gc||eb!=gb||m.size()!=d.size()||!std::equal(d.begin(),d.end(),m.begin())){ if(bad++<8) printf("BAD[%s/%s] n=%zu q=%lld lb %zu/%zu ub %zu/%zu cnt %zu/%zu cont %d/%d size %zu\n",tag,w,d.size(),(long long)q,glb,elb,gub,eub,gc,ec,gb,eb,m.size()); }
    };
    for(auto x:d){ for(auto*pm:{&a,&b,&c,&c2}){ const char*w= pm==&a?"range":pm==&b?"raw":pm==&c?"reopen1":"reopen2"; chk(*pm,w,x); if(x>lo)chk(*pm,w,x-1); chk(*pm,w,x+1);} }
    for(auto*pm:{&a,&b,&c,&c2}){ chk(*pm,"x",lo); chk(*pm,"x",hi-1); chk(*pm,"x",K(g())); }
  }
  unlink(f1.c_str());unlink(f2.c_str());unlink(raw.c_str());
  printf("%s: bad=%zu of %zu\n",tag,bad,cnt); fflush(stdout);
}
#define R(...) if(fork()==0){ __VA_ARGS__; _exit(0);} 
int main(int argc,char**argv){ uint64_t s=argc>1?atoll(argv[1]):1; int it=300;
  R(run<uint32_t,2,2>("M u32,2,2",s,it))
  R(run<int32_t,4,0>("M i32,4,0",s,it))
  R(run<int64_t,1,1>("M i64,1,1",s,it))
  R(run<uint64_t,8,4>("M u64,8,4",s,it))
  R(run<int16_t,2,1>("M i16,2,1",s,it))
  int st; while(wait(&st)>0) if(!WIFEXITED(st)||WEXITSTATUS(st)) printf("child died st=%x\n",st);
}

#include "pgm/pgm_index.hpp"
#include "pgm/pgm_index_variants.hpp"
#include "gen.hpp"
#include <map>
template<size_t E> void run(){ std::mt19937_64 g(7); std::map<size_t,std::pair<int,int>> byn; 
  for(int i=0;i<60000;i++){ auto d=gen_data<uint32_t>(g, 3*E+8); if(d.size()>3*E+8) continue; bool exc=false; try{ pgm::CompressedPGMIndex<uint32_t,E,0> idx(d.begin(),d.end()); }catch(std::exception&e){exc=true;} auto&p=byn[d.size()]; p.first++; p.second+=exc; }
  printf("E=%zu: n with exceptions: ",E); for(auto&[n,p]:byn) if(p.second) printf("%zu(%d/%d) ",n,p.second,p.first); puts(""); }
int main(){ run<1>(); run<2>(); run<4>(); run<8>(); run<16>(); run<64>(); }

#include "pgm/pgm_index.hpp"
#include "pgm/pgm_index_variants.hpp"
#include "gen.hpp"
#include <map>
#include <string>
#include <unistd.h>
#include <sys/wait.h>
template<class K,class Idx,size_t E> void run(const char*tag,uint64_t seed,int iters){
  std::mt19937_64 g(seed); size_t bad=0,cnt=0; std::map<std::string,int> exc;
  for(int i=0;i<iters;i++){ auto d=gen_data<K>(g, i%3==0? 12: 300);
    if(i%5==0){ // bucket-boundary family: keys on multiples of a power of two
      K step= K(1)<<(g()%(sizeof(K)*8-2)); for(auto&x:d) x= (x/step)*step + (g()%3==0? K(g()%3):0); }
    for(auto&x:d) if(x==std::numeric_limits<K>::max()) x--;
    std::sort(d.begin(),d.end());
    try{ Idx idx(d.begin(),d.end()); cnt+=check_static<K,Idx,E>(idx,d,g,tag,bad);
      // bucketing: out-of-range must be {0,0,0}/{n,n,n} -- only meaningful for bucketing; checked loosely by check_static
    } catch(std::exception&e){ if(!exc[e.what()]++ ){ printf("EXC[%s] %s n=%zu first=%llu last=%llu\n",tag,e.what(),d.size(),(unsigned long long)d[0],(unsigned long long)d.back()); } }
  }
  printf("%s: bad=%zu of %zu; exceptions:",tag,bad,cnt); for(auto&[k,v]:exc)printf(" [%s x%d]",k.c_str(),v); puts(""); fflush(stdout);
}
template<class T> struct Unwrap; template<class T> struct Unwrap<void(T)>{using type=T;};
#define R(K,IDX,E,TAG) if(fork()==0){ using I=typename Unwrap<void IDX>::type; run<K,I,E>(TAG,s,it); _exit(0);}
int main(int argc,char**argv){ setvbuf(stdout,0,_IONBF,0); uint64_t s=argc>1?atoll(argv[1]):1; int it=2500;
  using namespace pgm;
  R(uint64_t,(BucketingPGMIndex<uint64_t,1,2,0>),1,"B u64,1,2,0")
  R(uint64_t,(BucketingPGMIndex<uint64_t,4,4096,32>),4,"B u64,4,4096,32")
  R(uint64_t,(BucketingPGMIndex<uint64_t,2,4095,0>),2,"B u64,2,4095,0")
  R(uint32_t,(BucketingPGMIndex<uint32_t,1,3,8>),1,"B u32,1,3,8")
  R(uint32_t,(BucketingPGMIndex<uint32_t,8,550,16>),8,"B u32,8,550,16")
  R(uint16_t,(BucketingPGMIndex<uint16_t,1,512,0>),1,"B u16,1,512,0")
  R(uint16_t,(BucketingPGMIndex<uint16_t,2,100,16>),2,"B u16,2,100,16")
  R(uint8_t,(BucketingPGMIndex<uint8_t,1,128,8>),1,"B u8,1,128,8")
  R(uint8_t,(BucketingPGMIndex<uint8_t,1,7,0>),1,"B u8,1,7,0")
  R(uint64_t,(EliasFanoPGMIndex<uint64_t,1>),1,"EF u64,1")
  R(uint64_t,(EliasFanoPGMIndex<uint64_t,32,double>),32,"EF u64,32,double")
  R(uint32_t,(EliasFanoPGMIndex<uint32_t,2>),2,"EF u32,2")
  R(uint16_t,(EliasFanoPGMIndex<uint16_t,1>),1,"EF u16,1")
  R(uint8_t,(EliasFanoPGMIndex<uint8_t,1>),1,"EF u8,1")
  int st; while(wait(&st)>0) if(!WIFEXITED(st)||WEXITSTATUS(st)) printf("child died st=%x\n",st);
}

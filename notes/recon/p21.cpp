#include "pgm/pgm_index.hpp"
#include "pgm/pgm_index_variants.hpp"
#include "gen.hpp"
#include <map>
#include <string>
#include <unistd.h>
#include <sys/wait.h>
template<class K,class Idx,size_t E> void run(const char*tag,uint64_t seed,int iters){
  std::mt19937_64 g(seed); size_t bad=0,cnt=0; std::map<std::string,int> exc; size_t badsets=0; size_t minbadn=~0ul; K minbadlast=std::numeric_limits<K>::max();
  for(int i=0;i<iters;i++){ auto d=gen_data<K>(g, i%3==0? 12: 300);
    if(sizeof(K)==8) for(auto&x:d) x>>= (i%2?4:0);   // half of datasets below 2^60
    std::sort(d.begin(),d.end());
    try{ Idx idx(d.begin(),d.end()); size_t b0=bad; cnt+=check_static<K,Idx,E>(idx,d,g,tag,bad); if(bad!=b0){badsets++; minbadn=std::min(minbadn,d.size()); minbadlast=std::min(minbadlast,d.back());} }
    catch(std::exception&e){ if(!exc[e.what()]++ ){ printf("EXC[%s] %s n=%zu first=%llu last=%llu\n",tag,e.what(),d.size(),(unsigned long long)d[0],(unsigned long long)d.back()); } }
  }
  printf("%s: bad=%zu of %zu badsets=%zu minbadn=%zu minbadlast=%llu; exceptions:",tag,bad,cnt,badsets,minbadn,(unsigned long long)minbadlast); for(auto&[k,v]:exc)printf(" [%s x%d]",k.c_str(),v); puts(""); fflush(stdout);
}
template<class T> struct Unwrap; template<class T> struct Unwrap<void(T)>{using type=T;};
#define R(K,IDX,E,TAG) if(fork()==0){ using I=typename Unwrap<void IDX>::type; run<K,I,E>(TAG,s,it); _exit(0);}
int main(int argc,char**argv){ setvbuf(stdout,0,_IONBF,0); uint64_t s=argc>1?atoll(argv[1]):1; int it=3000;
  using namespace pgm;
  R(uint64_t,(CompressedPGMIndex<uint64_t,2,2>),2,"C u64,2,2")
  R(uint64_t,(CompressedPGMIndex<uint64_t,16,4>),16,"C u64,16,4")
  R(uint64_t,(CompressedPGMIndex<uint64_t,1,0>),1,"C u64,1,0")
  R(uint32_t,(CompressedPGMIndex<uint32_t,8,0>),8,"C u32,8,0")
  R(uint32_t,(CompressedPGMIndex<uint32_t,1,1>),1,"C u32,1,1")
  R(uint32_t,(CompressedPGMIndex<uint32_t,64,4>),64,"C u32,64,4")
  R(uint16_t,(CompressedPGMIndex<uint16_t,4,4>),4,"C u16,4,4")
  R(uint8_t,(CompressedPGMIndex<uint8_t,1,1>),1,"C u8,1,1")
  R(uint32_t,(CompressedPGMIndex<uint32_t,3,256>),3,"C u32,3,256")
  R(uint16_t,(CompressedPGMIndex<uint16_t,1,0>),1,"C u16,1,0")
  int st; while(wait(&st)>0) if(!WIFEXITED(st)||WEXITSTATUS(st)) printf("child died st=%x\n",st);
}

#include "pgm/pgm_index.hpp"
#include <random>
#include <cstdio>
#include <cmath>
#include <unistd.h>
#include <sys/wait.h>
template<class K,size_t E,size_t ER,class F> void run(const char*tag,uint64_t seed,int iters){
  std::mt19937_64 g(seed); size_t bad=0,cnt=0; K inf=std::numeric_limits<K>::infinity();
  for(int it=0;it<iters;it++){ size_t n=1+g()%(g()%7==0?4000:60); std::vector<K> d(n); int mode=g()%6;
    std::lognormal_distribution<double> ln(0,0.5); std::exponential_distribution<double> ex(1.2); std::uniform_real_distribution<double> un(-1000,1000);
    K base = K(un(g))*1000;
    for(auto&x:d){ switch(mode){ case 0: x=K(ln(g)); break; case 1: x=K(ex(g)); break; case 2: x=K(un(g)); break; case 3: x=K(std::floor(un(g))); break; case 4: x=K(base+K(g()%50)); break; default: x=K(g()%20)-10; } }
    std::sort(d.begin(),d.end());
    pgm::PGMIndex<K,E,ER,F> idx(d.begin(),d.end());
    auto chk=[&](K q){ if(q==inf||std::isnan(q))return; cnt++; auto r=idx.search(q); size_t glb=std::lower_bound(d.begin(),d.end(),q)-d.begin(); bool ok=r.lo<=r.hi&&r.hi<=n&&r.hi-r.lo<=2*E+2; size_t l=ok?std::lower_bound(d.begin()+r.lo,d.begin()+r.hi,q)-d.begin():0; bool pres=glb<n&&d[glb]==q;
      if(!ok||l!=glb||(pres&&!(r.lo<=glb&&glb<r.hi))){ if(bad++<6) printf("BAD[%s] n=%zu mode=%d q=%.17g lo=%zu hi=%zu pos=%zu glb=%zu pres=%d\n",tag,n,mode,(double)q,r.lo,r.hi,r.pos,glb,pres); } };
    for(auto x:d){ chk(x); chk(std::nextafter(x,-inf)); chk(std::nextafter(x,inf)); }
    chk(std::numeric_limits<K>::lowest()); chk(std::numeric_limits<K>::max()); chk(d[0]-1); chk(d.back()+1); chk(K(un(g))); chk(K(1e30));
    for(size_t i=1;i<n;i++) chk((d[i]+d[i-1])/2);
  }
  printf("%s: bad=%zu of %zu\n",tag,bad,cnt);
}
#define R(...) if(fork()==0){ __VA_ARGS__; _exit(0);} 
int main(int argc,char**argv){ setvbuf(stdout,0,_IONBF,0); uint64_t s=argc>1?atoll(argv[1]):1; int it=1500;
  R(run<float,2,2,float>("float,2,2,float",s,it)) R(run<double,2,2,float>("double,2,2,float",s,it)) R(run<double,1,0,double>("double,1,0,double",s,it)) R(run<float,16,4,float>("float,16,4,float",s,it)) R(run<double,4,64,double>("double,4,64,double",s,it))
  int st; while(wait(&st)>0) if(!WIFEXITED(st)||WEXITSTATUS(st)) printf("child died st=%x\n",st);
}

#include "pgm/pgm_index.hpp"
#include <random>
#include <cstdio>
#include <cmath>
#include <unistd.h>
#include <sys/wait.h>
// domain guard: constraint points per the builder's rule; all consecutive slopes finite and < max(F)/4
template<class K,class F> bool in_domain(const std::vector<K>&d,double&maxslope){ size_t n=d.size(); K inf=std::numeric_limits<K>::infinity(); std::vector<std::pair<long double,long double>> p; p.push_back({d[0],0});
  for(size_t i=1;i+1<n;i++){ if(d[i]==d[i-1]){ K nx=std::nextafter(d[i],inf); if(nx<d[i+1]) p.push_back({nx,i}); } else p.push_back({d[i],i}); }
  if(n>=2&&d[n-1]!=d[n-2]) p.push_back({d[n-1],n-1}); K nx=std::nextafter(d[n-1],inf); if(!(nx<inf)) return false; p.push_back({nx,n});
  maxslope=0; for(size_t i=1;i<p.size();i++){ long double dx=p[i].first-p[i-1].first, dy=p[i].second-p[i-1].second; if(!(dx>0)) return false; long double s=dy/dx; if(!(s< (long double)std::numeric_limits<F>::max()/4)) return false; if(s>maxslope)maxslope=s; }
  // also span: total key range must not underflow slopes: n/(range) must be > min normal of F
  long double range=p.back().first-p.front().first; if(!(n/range > (long double)std::numeric_limits<F>::min()*4)) return false;
  return true; }
template<class K,size_t E,size_t ER,class F> void run(const char*tag,uint64_t seed,int iters){
  std::mt19937_64 g(seed); size_t bad=0,cnt=0,skipped=0,used=0; K inf=std::numeric_limits<K>::infinity();
  for(int it=0;it<iters;it++){ size_t n=1+g()%(g()%7==0?4000:80); std::vector<K> d(n); int mode=g()%10;
    std::lognormal_distribution<double> ln(0,0.5); std::exponential_distribution<double> ex(1.2); std::uniform_real_distribution<double> un(-1000,1000);
    double mag = std::pow(10.0, (double)(int(g()%60)-30)); K base=K(un(g))*1000; int dupmax=1+g()%40;
    for(size_t i=0;i<n;i++){ K x; switch(mode){ case 0: x=K(ln(g)); break; case 1: x=K(ex(g)); break; case 2: x=K(un(g)); break; case 3: x=K(std::floor(un(g))); break; case 4: x=K(base+K(g()%50)); break; case 5: x=K(g()%20)-10; break; case 6: x=K(un(g)*mag); break; case 7: x=K(std::floor(un(g)/dupmax))*K(mag); break; case 8: { K b=K(un(g)); x=b; for(int j=g()%4;j>0;j--) x=std::nextafter(x,inf); } break; default: x=K(std::ldexp(1.0,int(g()%40)-20))*(g()%2?1:-1); } d[i]=x; }
    std::sort(d.begin(),d.end()); if(!std::isfinite((double)d.back())||!std::isfinite((double)d.front())){skipped++;continue;}
    double ms; if(!in_domain<K,F>(d,ms)){ skipped++; continue; } used++;
    pgm::PGMIndex<K,E,ER,F> idx(d.begin(),d.end());
    auto chk=[&](K q){ if(!(q<inf)||std::isnan(q))return; cnt++; auto r=idx.search(q); size_t glb=std::lower_bound(d.begin(),d.end(),q)-d.begin(); bool ok=r.lo<=r.hi&&r.hi<=n&&r.hi-r.lo<=2*E+2; size_t l=ok?std::lower_bound(d.begin()+r.lo,d.begin()+r.hi,q)-d.begin():0; bool pres=glb<n&&d[glb]==q;
      if(!ok||l!=glb||(pres&&!(r.lo<=glb&&glb<r.hi))){ if(bad++<6) printf("BAD[%s] n=%zu mode=%d q=%.17g lo=%zu hi=%zu pos=%zu glb=%zu pres=%d maxslope=%g\n",tag,n,mode,(double)q,r.lo,r.hi,r.pos,glb,pres,ms); } };
    for(auto x:d){ chk(x); chk(std::nextafter(x,-inf)); chk(std::nextafter(x,inf)); }
    chk(std::numeric_limits<K>::lowest()); chk(std::numeric_limits<K>::max()); chk(d[0]-1); chk(d.back()+1); chk(K(un(g))); chk(K(1e30)); chk(K(-1e30));
    for(size_t i=1;i<n;i++) chk((d[i]+d[i-1])/2);
  }
  printf("%s: bad=%zu of %zu (datasets used %zu, rejected by domain guard %zu)\n",tag,bad,cnt,used,skipped);
}
#define R(...) if(fork()==0){ __VA_ARGS__; _exit(0);} 
int main(int argc,char**argv){ setvbuf(stdout,0,_IONBF,0); uint64_t s=argc>1?atoll(argv[1]):1; int it=3000;
  R(run<float,2,2,float>("float,2,2,float",s,it)) R(run<double,2,2,float>("double,2,2,float",s,it)) R(run<double,1,0,double>("double,1,0,double",s,it)) R(run<float,16,4,float>("float,16,4,float",s,it)) R(run<double,4,64,double>("double,4,64,double",s,it)) R(run<float,1,1,double>("float,1,1,double",s,it))
  int st; while(wait(&st)>0) if(!WIFEXITED(st)||WEXITSTATUS(st)) printf("child died st=%x\n",st);
}

#include "pgm/pgm_index.hpp"
#include "pgm/pgm_index_variants.hpp"
#include "pgm/pgm_index_dynamic.hpp"
#include <cstdio>
#include <thread>
#include <random>
#include <atomic>
int main(){
  std::mt19937_64 g(1); std::vector<uint32_t> d(20000); for(auto&x:d)x=g()%1000000; std::sort(d.begin(),d.end());
  pgm::PGMIndex<uint32_t,4,2> a(d.begin(),d.end());
  pgm::CompressedPGMIndex<uint32_t,4,2> b(d.begin(),d.end());
  pgm::BucketingPGMIndex<uint32_t,4,64> c(d.begin(),d.end());
  pgm::EliasFanoPGMIndex<uint32_t,4> e(d.begin(),d.end());
  pgm::MappedPGMIndex<uint32_t,4,2> m(d.begin(),d.end(),"/tmp/explore/tsan.map");
  std::vector<std::tuple<uint32_t,uint32_t>> pts; for(auto x:d)pts.push_back({x%1000,x/1000});
  pgm::MultidimensionalPGMIndex<2,uint32_t,4> md(pts.begin(),pts.end());
  std::vector<std::pair<uint32_t,uint32_t>> kv; for(auto x:d) kv.push_back({x,x+1});
  pgm::DynamicPGMIndex<uint32_t,uint32_t,pgm::PGMIndex<uint32_t,4>> dy(kv.begin(),kv.end(),2,1,2);
  for(int i=0;i<500;i++){ dy.insert_or_assign(g()%1000000,5); if(i%3==0) dy.erase(d[g()%d.size()]); }
  std::atomic<uint64_t> sink{0};
  auto work=[&](int t){ std::mt19937_64 r(t); uint64_t s=0; for(int i=0;i<3000;i++){ uint32_t q=r()%1000001;
     s+=a.search(q).lo+b.search(q).lo+c.search(q).lo+e.search(q).lo; s+=m.count(q)+(m.upper_bound(q)-m.begin());
     s+=md.contains({q%1000,q/1000}); if(i%50==0){ for(auto it=md.range({q%500,q%37},{q%500+40,q%37+20}); it!=md.end(); ++it) s++; }
     auto f=dy.find(q); if(f!=dy.end()) s+=f->second; auto lb=dy.lower_bound(q); for(int j=0;j<5&&lb!=dy.end();j++,++lb) s+=lb->first; s+=dy.count(q); if(i%100==0){ s+=dy.range(q,q+5000).size(); }
  } sink+=s; };
  std::vector<std::thread> th; for(int t=0;t<8;t++) th.emplace_back(work,t); for(auto&t:th)t.join();
  printf("done %llu\n",(unsigned long long)sink.load());
}

#include <omp.h>
static int fake_procs=16;
extern "C" int omp_get_num_procs(void){ return fake_procs; }
#include "pgm/pgm_index.hpp"
#include <random>
#include <cstdio>
template<class K,size_t E,size_t ER> struct X: pgm::PGMIndex<K,E,ER>{ using B=pgm::PGMIndex<K,E,ER>; using B::B;
  std::vector<size_t> sizes()const{ std::vector<size_t> v; for(size_t l=0;l+1<this->levels_offsets.size();l++) v.push_back(this->levels_offsets[l+1]-this->levels_offsets[l]-1); return v; } };
template<class K,size_t E,size_t ER> void run(const char*tag,uint64_t seed){ std::mt19937_64 r(seed); size_t bad=0,cases=0,maxh=0;
  for(int it=0;it<60;it++){ bool big=it%3==0; size_t n= big? (1u<<15)+r()%200000 : 1+r()%5000; std::vector<K> d(n); int mode=r()%4; K base=r(); for(auto&x:d){ x= mode==0? r()%(n/2+1) : mode==1? r() : mode==2? base+r()%(4*n) : (r()%3? r()%500: r()); if(x==std::numeric_limits<K>::max())x--; } std::sort(d.begin(),d.end());
    int t= big? 1+r()%20:1; fake_procs=32; omp_set_num_threads(t);
    X<K,E,ER> x(d.begin(),d.end()); auto m=x.sizes(); cases++; maxh=std::max(maxh,x.height());
    size_t c0=(t==1||n<(1u<<15))?1:t;
    if(x.segments_count()> n/(2*E+1)+c0+1){ if(bad++<5)printf("BAD[%s] segments_count %zu > %zu\n",tag,x.segments_count(),n/(2*E+1)+c0+1);} 
    for(size_t l=0;l+1<m.size();l++){ size_t cl=(t==1||m[l]<(1u<<15))?1:t; size_t bound=m[l]/(2*ER+1)+cl+1; if(m[l+1]>bound){ if(bad++<5)printf("BAD[%s] level %zu size %zu > bound %zu (below %zu, t=%d)\n",tag,l+1,m[l+1],bound,m[l],t);} }
    // height bound
    size_t mm=m[0],h=1; while(mm>2 && h<64){ size_t cl=(t==1||mm<(1u<<15))?1:t; mm=mm/(2*ER+1)+cl+1; h++; if(mm<=2)break; } if(ER && x.height()>h+1){ if(bad++<5)printf("BAD[%s] height %zu > %zu (m0=%zu)\n",tag,x.height(),h+1,m[0]); }
  }
  printf("%s: cases=%zu bad=%zu maxheight=%zu\n",tag,cases,bad,maxh); }
int main(int argc,char**argv){ uint64_t s=argc>1?atoll(argv[1]):1; run<uint64_t,1,1>("u64,1,1",s); run<uint32_t,2,2>("u32,2,2",s); run<uint64_t,4,4>("u64,4,4",s); run<int64_t,1,64>("i64,1,64",s); run<uint32_t,8,0>("u32,8,0",s); }

#pragma once
#include <random>
#include <vector>
#include <algorithm>
#include <limits>
#include <cstdio>
#include <cstdint>
template<class K> std::vector<K> gen_data(std::mt19937_64&g, size_t maxn=60){
    size_t n = 1 + g()% (g()%9==0? 5000: maxn);
    std::vector<K> d(n);
    int mode=g()%7;
    K lo=std::numeric_limits<K>::lowest(), hi=std::numeric_limits<K>::max();
    K base = K(g());
    for(auto&x:d){
      switch(mode){
        case 0: x = K(g()%50); break;
        case 1: x = K(g()); break;
        case 2: x = K(hi - 1 - K(g()%20)); break;
        case 3: x = K(lo + K(g()%20)); break;
        case 4: x = K(base + K(g()%200)); break;
        case 5: x = K(g()%3==0? g(): g()%1000); break;
        default: x = K((g()%4? g()%100 : g())); break;
      }
      if(x==hi) x=hi-1;
    }
    std::sort(d.begin(),d.end());
    return d;
}
template<class K,class Idx,size_t E> size_t check_static(Idx&idx,const std::vector<K>&d,std::mt19937_64&g,const char*tag,size_t&bad){
    K lo=std::numeric_limits<K>::lowest(), hi=std::numeric_limits<K>::max(); size_t n=d.size(); size_t cnt=0;
    auto check=[&](K q){
      if(q==hi) return;
      cnt++;
      auto r=idx.search(q);
      size_t g_lb=std::lower_bound(d.begin(),d.end(),q)-d.begin();
      bool ok = r.lo<=r.hi && r.hi<=n && r.hi-r.lo<=2*E+2;
      size_t l_lb = ok? std::lower_bound(d.begin()+r.lo,d.begin()+r.hi,q)-d.begin() : 0;
      bool present = g_lb<n && d[g_lb]==q;
      if(!ok || l_lb!=g_lb || (present && !(r.lo<=g_lb && g_lb<r.hi))){
        if(bad<6){ printf("BAD[%s] n=%zu q=%llu lo=%zu hi=%zu pos=%zu glb=%zu present=%d\n",tag,n,(unsigned long long)q,r.lo,r.hi,r.pos,g_lb,present);
          if(n<30){for(auto x:d)printf("%llu ",(unsigned long long)x);puts("");}}
        bad++;
      }
    };
    for(auto x:d){check(x); if(x>lo)check(x-1); check(x+1);}
    check(lo); check(hi-1); check(K(g())); check(d[0]/2); check(K(d.back()+ (hi-d.back())/2));
    return cnt;
}

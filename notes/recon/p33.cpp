#include "pgm/pgm_index.hpp"
#include "pgm/pgm_index_variants.hpp"
#include "gen.hpp"
#include <map>
#include <string>
template<class K,size_t E,size_t ER> void run(const char*tag){ std::mt19937_64 g(5); size_t bad=0,cnt=0,exc=0; using Idx=pgm::CompressedPGMIndex<K,E,ER>;
  for(int i=0;i<40000;i++){ auto d=gen_data<K>(g, 2*E+6); if(d.size()>2*E+6) continue; try{ Idx idx(d.begin(),d.end()); cnt+=check_static<K,Idx,E>(idx,d,g,tag,bad);}catch(std::exception&e){ if(!exc++) printf("EXC[%s] %s n=%zu\n",tag,e.what(),d.size()); } }
  printf("%s: bad=%zu of %zu exc=%zu\n",tag,bad,cnt,exc); }
int main(){ run<uint32_t,4,0>("C u32,4,0"); run<uint32_t,8,0>("C u32,8,0"); run<uint64_t,16,0>("C u64,16,0"); run<uint16_t,64,0>("C u16,64,0"); run<uint32_t,8,4>("C u32,8,4"); run<uint8_t,128,0>("C u8,128,0"); run<uint32_t,1,0>("C u32,1,0"); run<uint32_t,2,0>("C u32,2,0");}

// prototype: independent exact feasibility oracle (sandwich of hulls) vs builder, integer keys
#define private public
#include "pgm/piecewise_linear_model.hpp"
#undef private
#include <random>
#include <cstdio>
#include <vector>
#include <algorithm>
typedef __int128 I;
struct P{ I x,y; };
static I cross(const P&o,const P&a,const P&b){ return (a.x-o.x)*(b.y-o.y)-(a.y-o.y)*(b.x-o.x); }
// feasible iff upper hull of L <= lower hull of U on all breakpoints
static bool feasible(const std::vector<P>&L,const std::vector<P>&U){
  size_t m=L.size(); if(m<=1) return true;
  std::vector<P> g,h; // g: upper hull (concave) of L ; h: lower hull (convex) of U
  for(auto&p:L){ while(g.size()>=2 && cross(g[g.size()-2],g.back(),p)>=0) g.pop_back(); g.push_back(p);} 
  for(auto&p:U){ while(h.size()>=2 && cross(h[h.size()-2],h.back(),p)<=0) h.pop_back(); h.push_back(p);} 
  // at each vertex of h (x,U): g(x) <= U ;  at each vertex of g (x,Lv): h(x) >= Lv
  auto eval_le=[&](const std::vector<P>&poly,const P&v,bool poly_is_g)->bool{ // find edge of poly containing v.x
    size_t lo=0,hi=poly.size()-1; if(poly.size()==1) return poly_is_g? poly[0].y<=v.y : poly[0].y>=v.y; // same x only
    // binary search for segment [a,b] with a.x<=v.x<=b.x
    size_t a=0,b=poly.size()-1; while(b-a>1){ size_t mid=(a+b)/2; if(poly[mid].x<=v.x) a=mid; else b=mid; }
    const P&A=poly[a],&B=poly[b]; // value at v.x: A.y + (B.y-A.y)*(v.x-A.x)/(B.x-A.x)
    I lhs=(B.y-A.y)*(v.x-A.x), rhs=(v.y-A.y)*(B.x-A.x); // compare poly(v.x) ? v.y  <=> lhs ? rhs  (B.x-A.x>0)
    return poly_is_g? lhs<=rhs : lhs>=rhs; };
  for(auto&v:h) if(!eval_le(g,v,true)) return false;
  for(auto&v:g) if(!eval_le(h,v,false)) return false;
  return true;
}
int main(int argc,char**argv){ uint64_t seed=argc>1?atoll(argv[1]):1; std::mt19937_64 r(seed); size_t cases=0,bad=0,segs=0,tight=0;
  for(int it=0;it<20000;it++){
    size_t eps= r()%5==0? 0 : r()%9; size_t n=2+r()%300; std::vector<uint64_t> xs(n); int mode=r()%5; uint64_t cur= mode==3? (~0ull-5000): r()%1000;
    for(auto&x:xs){ uint64_t step= mode==0?1+r()%3 : mode==1? 1+r()%1000 : mode==2? (r()%10==0? r()%(1ull<<40):1+r()%4) : mode==3? 1+r()%8 : 1+(r()%2)*r()%100; cur+=step; x=cur; }
    std::vector<size_t> ys(n); size_t y= r()%3==0? 0: r()%50; for(size_t i=0;i<n;i++){ ys[i]=y; y+= 1+ (r()%4==0? r()%6:0); }
    pgm::internal::OptimalPiecewiseLinearModel<uint64_t,size_t> opt(eps);
    std::vector<P> L,U; size_t start=0; cases++;
    auto band=[&](size_t i){ I yy=ys[i]; I lo=yy-(I)eps; if(lo<0) lo=0; L.push_back({(I)xs[i],lo}); U.push_back({(I)xs[i],yy+(I)eps}); };
    for(size_t i=0;i<n;i++){
      bool ok=opt.add_point(xs[i],ys[i]);
      band(i); bool f=feasible(L,U);
      if(ok!=f){ if(bad++<5) printf("MISMATCH it=%d i=%zu eps=%zu builder=%d oracle=%d seglen=%zu\n",it,i,eps,ok,f,L.size()); }
      if(!ok){ // segment ended at i-1
        segs++; L.clear();U.clear(); opt.add_point(xs[i],ys[i]); band(i); }
    }
  }
  printf("cases=%zu segs=%zu mismatches=%zu\n",cases,segs,bad);
}

#include "pgm/pgm_index_dynamic.hpp"
#include <map>
#include <random>
#include <cstdio>
#include <unistd.h>
#include <sys/wait.h>
template<class K,class V,class P> int run(const char*tag,uint64_t seed,int hist,int base,int bl,int il,uint64_t keyspace){
  std::mt19937_64 g(seed); size_t bad=0, ops=0;
  for(int h=0;h<hist;h++){
    std::vector<std::pair<K,V>> bulk; size_t nb = g()%3==0?0: g()%40;
    for(size_t i=0;i<nb;i++) bulk.push_back({K(g()%keyspace), V(g()%1000)});
    std::sort(bulk.begin(),bulk.end(),[](auto&a,auto&b){return a.first<b.first;});
    std::map<K,V> m; for(auto&p:bulk) m.insert(p);
    pgm::DynamicPGMIndex<K,V,P> x(bulk.begin(),bulk.end(),base,bl,il);
    int nops = g()%200;
    for(int o=0;o<=nops;o++){
      if(o<nops){ K k=K(g()%keyspace); if(g()%3){ V v=V(g()%1000); x.insert_or_assign(k,v); m[k]=v;} else {x.erase(k); m.erase(k);} ops++; }
      if(o%7==0 || o==nops){
        // full check
        for(int t=0;t<6;t++){ K k=K(g()%(keyspace+2));
          auto it=x.find(k); auto mi=m.find(k);
          bool f = it!=x.end();
          if(f!=(mi!=m.end()) || (f && it->second!=mi->second)){ if(bad++<5) printf("BAD[%s] find k=%llu h=%d o=%d\n",tag,(unsigned long long)k,h,o);} 
          auto lb=x.lower_bound(k); auto ml=m.lower_bound(k);
          bool lf= lb!=x.end();
          if(lf!=(ml!=m.end()) || (lf && (lb->first!=ml->first || lb->second!=ml->second))){ if(bad++<5) printf("BAD[%s] lower_bound k=%llu h=%d o=%d got=%lld exp=%lld\n",tag,(unsigned long long)k,h,o, lf?(long long)lb->first:-1, ml!=m.end()?(long long)ml->first:-1);} 
          // iterate from lb
          if(lf){ auto mj=ml; size_t c=0; auto it2=lb; for(; it2!=x.end() && mj!=m.end(); ++it2,++mj,++c){ if(it2->first!=mj->first||it2->second!=mj->second){ if(bad++<5) printf("BAD[%s] iter mismatch h=%d o=%d at %zu\n",tag,h,o,c); break;} }
             if((it2!=x.end())!=(mj!=m.end())) { if(bad++<5) printf("BAD[%s] iter length h=%d o=%d\n",tag,h,o);} }
          K lo=K(g()%keyspace), hi=lo+K(g()%(keyspace/2+1));
          auto r=x.range(lo,hi); std::vector<std::pair<K,V>> e; for(auto q=m.lower_bound(lo); q!=m.end()&&q->first<=hi;++q) e.push_back(*q);
          if(r!=e){ if(bad++<5) printf("BAD[%s] range [%llu,%llu] got %zu exp %zu h=%d o=%d\n",tag,(unsigned long long)lo,(unsigned long long)hi,r.size(),e.size(),h,o);} 
        }
        if(x.size()!=m.size()){ if(bad++<5) printf("BAD[%s] size %zu vs %zu h=%d o=%d\n",tag,x.size(),m.size(),h,o);} 
        if(x.empty()!=m.empty()){ if(bad++<5) printf("BAD[%s] empty h=%d o=%d\n",tag,h,o);} 
      }
    }
  }
  printf("%s: bad=%zu ops=%zu\n",tag,bad,ops); fflush(stdout); return 0;
}
#define R(...) if(fork()==0){ __VA_ARGS__; _exit(0);} 
int main(int argc,char**argv){ uint64_t s=argc>1?atoll(argv[1]):1;
  using namespace pgm;
  R(run<uint32_t,uint32_t,PGMIndex<uint32_t,16>>("u32 b2 bl1 il2 ks50",s,300,2,1,2,50))
  R(run<uint32_t,uint32_t,PGMIndex<uint32_t,2,1>>("u32 b2 bl1 il2 ks1000 eps2",s,300,2,1,2,1000))
  R(run<uint64_t,uint64_t,PGMIndex<uint64_t,1,0>>("u64 b4 bl1 il2 ks200",s,300,4,1,2,200))
  R(run<int32_t,int32_t,PGMIndex<int32_t,4>>("i32 b2 bl2 il3 ks100",s,300,2,2,3,100))
  R(run<uint32_t,uint32_t,PGMIndex<uint32_t,16>>("u32 b8 default",s,100,8,0,0,5000))
  R(run<uint16_t,uint16_t,PGMIndex<uint16_t,3>>("u16 b2 bl1 il2 ks65535",s,300,2,1,2,65535))
  int st; while(wait(&st)>0) if(!WIFEXITED(st)||WEXITSTATUS(st)) printf("child died st=%x\n",st);
}

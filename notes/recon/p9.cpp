#include "pgm/pgm_index.hpp"
#include "pgm/pgm_index_variants.hpp"
#include <random>
#include <cstdio>
#include <unistd.h>
#include <sys/wait.h>
#include <set>
template<class T,size_t... I> auto mk(std::mt19937_64&g,T u,std::index_sequence<I...>){ return std::make_tuple(((void)I,T(g()%u))...); }
template<class Tup,size_t... I> bool inbox(const Tup&a,const Tup&b,const Tup&p,std::index_sequence<I...>){ return ((std::get<I>(a)<=std::get<I>(p)&&std::get<I>(p)<=std::get<I>(b))&&...); }
template<class Tup,size_t... I> void mm(Tup&a,Tup&b,std::index_sequence<I...>){ ((std::get<I>(a)>std::get<I>(b)?std::swap(std::get<I>(a),std::get<I>(b)):void()),...); }
template<class Tup,size_t... I> std::string str(const Tup&a,std::index_sequence<I...>){ std::string s="("; ((s+=std::to_string(std::get<I>(a))+","),...); return s+")"; }
template<uint8_t D,class T,size_t E> void run(const char*tag,uint64_t seed,int iters){
  std::mt19937_64 g(seed); size_t bad=0,cnt=0; auto seq=std::make_index_sequence<D>();
  for(int it=0;it<iters;it++){
    T maxu = T(1)<<(std::numeric_limits<T>::digits/D-1);
    T u = g()%3==0? maxu : T(2+g()%(g()%2?8:200)); if(u>maxu)u=maxu;
    size_t n=1+g()%(g()%5==0?3000:100);
    using P=decltype(mk<T>(g,u,seq)); std::vector<P> pts(n); for(auto&p:pts)p=mk<T>(g,u,seq);
    pgm::MultidimensionalPGMIndex<D,T,E> x(pts.begin(),pts.end());
    std::multiset<P> ms(pts.begin(),pts.end());
    for(int q=0;q<40;q++){ P p = q%2? pts[g()%n] : mk<T>(g,u,seq); cnt++;
      bool e=ms.count(p)>0; bool got=x.contains(p);
      if(e!=got){ if(bad++<5) printf("BAD[%s] contains %s exp %d got %d n=%zu u=%llu\n",tag,str(p,seq).c_str(),e,got,n,(unsigned long long)u);} }
    for(int q=0;q<20;q++){ P a=mk<T>(g,u,seq), b=mk<T>(g,u,seq); if(q%4==0){a=pts[g()%n];} if(q%5==0) b=a; if(q%7==0){ b=mk<T>(g,maxu,seq);} mm(a,b,seq); cnt++;
      std::multiset<P> exp; for(auto&p:pts) if(inbox(a,b,p,seq)) exp.insert(p);
      std::multiset<P> got; size_t steps=0; bool ok=true;
      for(auto r=x.range(a,b); r!=x.end(); ++r){ got.insert(*r); if(!inbox(a,b,*r,seq)) ok=false; if(++steps>n+5){ok=false;break;} }
      if(!ok||got!=exp){ if(bad++<5) printf("BAD[%s] range %s..%s exp %zu got %zu ok=%d n=%zu u=%llu\n",tag,str(a,seq).c_str(),str(b,seq).c_str(),exp.size(),got.size(),ok,n,(unsigned long long)u);} }
  }
  printf("%s: bad=%zu of %zu\n",tag,bad,cnt); fflush(stdout);
}
#define R(...) if(fork()==0){ __VA_ARGS__; _exit(0);} 
int main(int argc,char**argv){ setvbuf(stdout,0,_IONBF,0); uint64_t s=argc>1?atoll(argv[1]):1; int it=400;
  R(run<2,uint32_t,2>("MD 2,u32,2",s,it))
  R(run<3,uint32_t,4>("MD 3,u32,4",s,it))
  R(run<2,uint64_t,1>("MD 2,u64,1",s,it))
  R(run<3,uint64_t,16>("MD 3,u64,16",s,it))
  R(run<4,uint64_t,8>("MD 4,u64,8",s,it))
  int st; while(wait(&st)>0) if(!WIFEXITED(st)||WEXITSTATUS(st)) printf("child died st=%x\n",st);
}

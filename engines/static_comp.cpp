#include "static_variants.hpp"
namespace {
#if VF_GROUP == 0
VF_COMP_HUGE(uint32_t, 8, 4, float);
VF_COMP(uint64_t, 1, 1, float);
VF_COMP(uint32_t, 8, 0, float);
#endif
#if VF_GROUP == 1
VF_COMP_ENUM(uint64_t, 1, 1, float);
VF_COMP_ENUM(uint32_t, 2, 0, float);
VF_COMP(uint16_t, 6, 4, float);
VF_COMP(uint8_t, 3, 2, double);
#endif
#if VF_GROUP == 2
VF_COMP_ENUM(uint16_t, 1, 256, float);
VF_COMP(uint32_t, 24, 200, float);
VF_COMP(uint64_t, 128, 16, double);
#endif
#if VF_GROUP == 3
VF_COMP_BIG(uint64_t, 1, 4, float);
VF_COMP_SEGS(uint64_t, 1, 4, float);
VF_COMP(uint64_t, 5, 3, float);
VF_COMP(uint32_t, 1, 2, double);
#endif
#if VF_GROUP == 4
VF_COMP_SWEEP(uint64_t, 1, 4, float);
VF_COMP(uint16_t, 12, 256, float);
VF_COMP(uint64_t, 4, 256, float);
#endif
#if VF_GROUP == 5
VF_COMP(uint8_t, 100, 0, float);
VF_COMP(uint32_t, 4, 4, float);
#endif
#if VF_GROUP == 6
VF_COMP(uint64_t, 8, 4, float);
VF_COMP(uint32_t, 2, 16, float);
VF_COMP(uint16_t, 1, 1, double);
VF_COMP(uint8_t, 2, 256, float);
#endif
#if VF_GROUP == 7
VF_COMP(uint64_t, 32, 2, float);
VF_COMP(uint32_t, 128, 1, double);
VF_COMP(uint16_t, 32, 0, float);
VF_COMP(uint8_t, 8, 1, float);
#endif
#if VF_GROUP == 8
VF_COMP(uint64_t, 1, 0, double);
VF_COMP(uint32_t, 8, 256, double);
VF_COMP(uint16_t, 4, 16, float);
VF_COMP(uint8_t, 128, 4, float);
#endif
#if VF_GROUP == 9
VF_COMP(uint64_t, 2, 2, double);
VF_COMP(uint32_t, 4, 0, double);
VF_COMP(uint16_t, 128, 2, float);
VF_COMP(uint8_t, 32, 0, double);
#endif
#if VF_GROUP == 10
VF_COMP(uint64_t, 4, 1, float);
VF_COMP(uint32_t, 1, 4, float);
VF_COMP(uint16_t, 2, 0, double);
VF_COMP(uint8_t, 1, 16, float);
#endif
#if VF_GROUP == 11
VF_COMP(uint64_t, 8, 16, double);
VF_COMP(uint32_t, 32, 1, float);
VF_COMP(uint64_t, 1, 256, float);
VF_COMP(uint32_t, 2, 4, float);
#endif
}

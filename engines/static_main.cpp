// main() of the static_search engines + the interposed omp_get_num_procs (so that the library's
// min(procs, max_threads, 20) can take every value 1..20 on any machine).
#include <omp.h>
#include "vf.hpp"
int vf_fake_procs = 32;
extern "C" int omp_get_num_procs(void) { return vf_fake_procs; }
#ifndef VF_ENGINE_NAME
#define VF_ENGINE_NAME "static_search"
#endif
int main(int argc, char **argv) { return vf::vf_main(argc, argv, VF_ENGINE_NAME); }

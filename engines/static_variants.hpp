// CompressedPGMIndex / BucketingPGMIndex / EliasFanoPGMIndex cases (C08 C09 C10, C17).
#pragma once
#define VF_WITH_VARIANTS 1
#include "static_search.hpp"

namespace vf {

inline char variant_which(const Ctx &c) { return c.prop("C17") ? 'N' : 'B'; }

// ---------------------------------------------------------------------------------------------- Compressed (C08)
template<class K, size_t Eps, size_t EpsRec, class Floating, int Mode = 0>
void comp_case(Ctx &c) {
    using Idx = pgm::CompressedPGMIndex<K, Eps, EpsRec, Floating>;
    if (Mode == 4 && !c.given) { run_sweep<K, Idx, Eps>(c, variant_which(c)); return; }
    constexpr bool Huge = Mode == 1;
    bool chunked = Mode == 0 && c.case_idx % 64 == 63 && sizeof(K) >= 4;
    if (Mode == 2 && !c.given) {
        StaticCase<K> probe;
        if (!gen_enum_case<K>(c, probe)) { c.count("enum_cases_past_the_end"); return; }
        c.count("enum_cases");
        c.maxc("enum_space_per_configuration", kSmallScope.total());
    }
    auto sc = Mode == 5 && !c.given ? gen_many_segments_case<K>(c) : Mode == 3 && !c.given ? gen_big_case<K>(c, Eps) : Huge && !c.given ? gen_huge_case<K>(c.rng, Eps) : Mode == 2 && !c.given ? [&] { StaticCase<K> e; gen_enum_case<K>(c, e); return e; }() : make_static_case<K>(c, Eps, chunked, 5000, c.thorough() ? (size_t(1) << 17) : (size_t(1) << 16), EpsRec);
    NoExtra ex;
    run_static<K, Idx, Eps>(c, sc, variant_which(c), ex);
}
#define VF_COMP_SEGS(K, E, ER, F)                                                                                      \
    VF_REGISTER(std::string("comp/") + ::vf::KT<K>::name() + ",e" #E ",er" #ER "," #F "#segs", (&::vf::comp_case<K, E, ER, F, 5>), 0.004)
#define VF_COMP(K, E, ER, F)                                                                                           \
    VF_REGISTER(std::string("comp/") + ::vf::KT<K>::name() + ",e" #E ",er" #ER "," #F, (&::vf::comp_case<K, E, ER, F>), 1.0)
#define VF_COMP_ENUM(K, E, ER, F)                                                                                      \
    VF_REGISTER(std::string("comp/") + ::vf::KT<K>::name() + ",e" #E ",er" #ER "," #F "#enum", (&::vf::comp_case<K, E, ER, F, 2>), 8.6)
#define VF_COMP_BIG(K, E, ER, F)                                                                                       \
    VF_REGISTER(std::string("comp/") + ::vf::KT<K>::name() + ",e" #E ",er" #ER "," #F "#big", (&::vf::comp_case<K, E, ER, F, 3>), 0.011)
#define VF_COMP_SWEEP(K, E, ER, F)                                                                                     \
    VF_REGISTER(std::string("comp/") + ::vf::KT<K>::name() + ",e" #E ",er" #ER "," #F "#sweep", (&::vf::comp_case<K, E, ER, F, 4>), 0.0003)
#define VF_COMP_HUGE(K, E, ER, F)                                                                                      \
    VF_REGISTER(std::string("comp/") + ::vf::KT<K>::name() + ",e" #E ",er" #ER "," #F "#huge", (&::vf::comp_case<K, E, ER, F, 1>), 0.0003)

// ---------------------------------------------------------------------------------------------- Bucketing (C09)
template<size_t Eps, uint8_t BitSize> struct BucketExtra : NoExtra {
    uint64_t outside = 0;
    template<class Idx, class K, class R>
    void after_query(Ctx &c, const Idx &, const StaticCase<K> &sc, const K &q, const R &r) {
        if (c.prop("C17")) return;
        const size_t n = sc.keys.size();
        if (q < sc.keys.front()) {
            ++outside;
            if (!(r.lo == 0 && r.hi == 0))
                c.violation("below_first_not_empty_at_0", J().num("q", q).num("lo", r.lo).num("hi", r.hi).num("n", n));
        } else if (q > sc.keys.back()) {
            ++outside;
            if (!(r.lo == n && r.hi == n))
                c.violation("above_last_not_empty_at_n", J().num("q", q).num("lo", r.lo).num("hi", r.hi).num("n", n));
        }
    }
    /// a fixed TopLevelBitSize that cannot hold the segment count is documented to raise invalid_argument
    template<class K> bool tolerate(const std::exception &e, const StaticCase<K> &) {
        return BitSize != 0 && dynamic_cast<const std::invalid_argument *>(&e) &&
               std::string(e.what()).find("TopLevelBitSize") != std::string::npos;
    }
};

template<class K, size_t Eps, size_t Top, uint8_t BitSize, class Floating, int Mode = 0>
void bucket_case(Ctx &c) {
    using Idx = pgm::BucketingPGMIndex<K, Eps, Top, BitSize, Floating>;
    if (Mode == 4 && !c.given) { run_sweep<K, Idx, Eps>(c, variant_which(c)); return; }
    constexpr bool Huge = Mode == 1;
    bool chunked = Mode == 0 && c.case_idx % 64 == 63 && sizeof(K) >= 4;
    if (Mode == 2 && !c.given) {
        StaticCase<K> probe;
        if (!gen_enum_case<K>(c, probe)) { c.count("enum_cases_past_the_end"); return; }
        c.count("enum_cases");
        c.maxc("enum_space_per_configuration", kSmallScope.total());
    }
    auto sc = Mode == 5 && !c.given ? gen_giant_case<K>(c, sizeof(K) == 8 ? 11 : 1) : Mode == 3 && !c.given ? gen_big_case<K>(c, Eps) : Huge && !c.given ? gen_huge_case<K>(c.rng, Eps) : Mode == 2 && !c.given ? [&] { StaticCase<K> e; gen_enum_case<K>(c, e); return e; }() : make_static_case<K>(c, Eps, chunked, 5000, c.thorough() ? (size_t(1) << 17) : (size_t(1) << 16));
    if (Mode == 0 && !c.given && !chunked && c.rng.chance(1, 6)) {
        // keys exactly on first + i*step for the bucket step this configuration will use, and spans of the whole type
        using D = UDom<K>;
        std::vector<uint64_t> u;
        size_t n = 2 + c.rng.below(300);
        uint64_t R = D::R;
        uint64_t first = c.rng.chance(1, 2) ? 0 : c.rng.below(R / 2);
        uint64_t span = R - first;
        uint64_t step = std::max<uint64_t>(1, span / Top + (span % Top > 0));
        for (size_t i = 0; i < n; ++i) {
            uint64_t b = first + std::min<uint64_t>(span, step * c.rng.below(Top + 1));
            int d = int(c.rng.below(3)) - 1;
            uint64_t x = d < 0 ? (b > first ? b - 1 : b) : d > 0 ? sat_add(b, 1, R) : b;
            u.push_back(std::min(x, R));
        }
        u.push_back(first);
        if (c.rng.chance(1, 2)) u.push_back(R);
        std::sort(u.begin(), u.end());
        sc.keys.clear();
        for (auto x : u) sc.keys.push_back(D::to_key(x));
        sc.family = "bucket_edges";
    }
    BucketExtra<Eps, BitSize> ex;
    run_static<K, Idx, Eps>(c, sc, variant_which(c), ex);
    c.count("outside_range_queries", ex.outside);
}
#define VF_BUCKET_ENUM(K, E, TOP, BITS, F)                                                                             \
    VF_REGISTER(std::string("bucket/") + ::vf::KT<K>::name() + ",e" #E ",top" #TOP ",bits" #BITS "," #F "#enum",      \
                (&::vf::bucket_case<K, E, TOP, BITS, F, 2>), 8.6)
#define VF_BUCKET_BIG(K, E, TOP, BITS, F)                                                                              \
    VF_REGISTER(std::string("bucket/") + ::vf::KT<K>::name() + ",e" #E ",top" #TOP ",bits" #BITS "," #F "#big",       \
                (&::vf::bucket_case<K, E, TOP, BITS, F, 3>), 0.0051)
#define VF_BUCKET_SWEEP(K, E, TOP, BITS, F)                                                                            \
    VF_REGISTER(std::string("bucket/") + ::vf::KT<K>::name() + ",e" #E ",top" #TOP ",bits" #BITS "," #F "#sweep",     \
                (&::vf::bucket_case<K, E, TOP, BITS, F, 4>), 0.0003)
#define VF_BUCKET_GIANT(K, E, TOP, BITS, F)                                                                            \
    VF_REGISTER(std::string("bucket/") + ::vf::KT<K>::name() + ",e" #E ",top" #TOP ",bits" #BITS "," #F "#giant",     \
                (&::vf::bucket_case<K, E, TOP, BITS, F, 5>), 0.00001)
#define VF_BUCKET_HUGE(K, E, TOP, BITS, F)                                                                             \
    VF_REGISTER(std::string("bucket/") + ::vf::KT<K>::name() + ",e" #E ",top" #TOP ",bits" #BITS "," #F "#huge",      \
                (&::vf::bucket_case<K, E, TOP, BITS, F, 1>), 0.0003)
#define VF_BUCKET(K, E, TOP, BITS, F)                                                                                  \
    VF_REGISTER(std::string("bucket/") + ::vf::KT<K>::name() + ",e" #E ",top" #TOP ",bits" #BITS "," #F,              \
                (&::vf::bucket_case<K, E, TOP, BITS, F>), 1.0)

// ---------------------------------------------------------------------------------------------- Elias-Fano (C10)
template<class K, size_t Eps, class Floating>
struct EfProbe : pgm::EliasFanoPGMIndex<K, Eps, Floating> {
    using B = pgm::EliasFanoPGMIndex<K, Eps, Floating>;
    using B::B;
    size_t wl() const { return this->ef.wl; }
    size_t ef_size() const { return this->ef.size(); }
    size_t high_bits() const { return this->ef.high.size(); }
    size_t high_zeros() const { return this->ef.high.size() - this->ef.low.size(); }
};

struct EfExtra : NoExtra {
    size_t wl = 0;
    template<class Idx, class K> void after_build(Ctx &c, const Idx &idx, const StaticCase<K> &) {
        wl = idx.wl();
        c.count("ef_wl_" + std::to_string(wl));
    }
};

template<class K, size_t Eps, class Floating, int Mode = 0>
void ef_case(Ctx &c) {
    using Idx = EfProbe<K, Eps, Floating>;
    if (Mode == 4 && !c.given) { run_sweep<K, Idx, Eps>(c, variant_which(c)); return; }
    constexpr bool Huge = Mode == 1;
    bool chunked = Mode == 0 && c.case_idx % 64 == 63 && sizeof(K) >= 4;
    if (Mode == 2 && !c.given) {
        StaticCase<K> probe;
        if (!gen_enum_case<K>(c, probe)) { c.count("enum_cases_past_the_end"); return; }
        c.count("enum_cases");
        c.maxc("enum_space_per_configuration", kSmallScope.total());
    }
    auto sc = Mode == 3 && !c.given ? gen_big_case<K>(c, Eps) : Huge && !c.given ? gen_huge_case<K>(c.rng, Eps) : Mode == 2 && !c.given ? [&] { StaticCase<K> e; gen_enum_case<K>(c, e); return e; }() : make_static_case<K>(c, Eps, chunked, 5000, c.thorough() ? (size_t(1) << 17) : (size_t(1) << 16));
    if (Mode == 0 && !c.given && !chunked && c.rng.chance(1, 5)) {
        // segment-key sets of a chosen density: `m` far-apart clusters of 2eps+2 consecutive keys -> m segments whose
        // keys span 2^b, so the Elias-Fano low-bit width takes every value
        using D = UDom<K>;
        uint64_t R = D::R;
        int b = 8 + int(c.rng.below(sizeof(K) * 8 - 7));
        uint64_t span = b >= 64 ? R : std::min<uint64_t>(R, (uint64_t(1) << b) - 1);
        size_t m = 1 + c.rng.below(200);
        uint64_t base = c.rng.chance(1, 2) ? 0 : c.rng.below(R - span + 1);
        std::vector<uint64_t> u;
        for (size_t i = 0; i < m; ++i) {
            uint64_t s = base + (span / m) * i + c.rng.below(std::max<uint64_t>(1, span / m / 2));
            size_t L = 2 * Eps + 2 + c.rng.below(3);
            for (size_t j = 0; j < L; ++j) u.push_back(std::min(R, sat_add(s, j * (1 + c.rng.below(2)), R)));
        }
        std::sort(u.begin(), u.end());
        sc.keys.clear();
        for (auto x : u) sc.keys.push_back(D::to_key(x));
        sc.family = "ef_density";
    }
    if (Mode == 0 && !c.given && !chunked && c.rng.chance(1, 8)) {
        // the last segment starts exactly at first + 2^j - 2 (or -1) and is followed by consecutive keys: queries at and
        // right after the last segment key hit the bucket boundary of the Elias-Fano high part
        using D = UDom<K>;
        uint64_t R = D::R;
        int j = 2 + int(c.rng.below(std::min<size_t>(sizeof(K) * 8 - 2, 20)));
        uint64_t top = (uint64_t(1) << j) - 1 - c.rng.below(3);
        uint64_t base = c.rng.chance(1, 2) ? 0 : c.rng.below(R - (top + 200));
        std::vector<uint64_t> u;
        uint64_t cur = 0;
        size_t guard = 0;
        while (cur + 40 * Eps + 60 < top && guard++ < 3000) {
            size_t L = 1 + c.rng.below(2 * Eps + 4);
            for (size_t k = 0; k < L && cur + 40 * Eps + 60 < top; ++k) u.push_back(cur++);
            cur += c.rng.below(9 * Eps) + (guard > 2500 ? top / 8 : 0);
            for (size_t r = c.rng.below(4); r > 0; --r) u.push_back(cur);
        }
        std::sort(u.begin(), u.end());
        while (!u.empty() && u.back() + 20 * Eps + 20 >= top) u.pop_back();
        if (u.empty()) u.push_back(0);
        size_t tail = 2 * Eps + 10 + c.rng.below(60);
        for (size_t k = 0; k < tail; ++k) u.push_back(top + k);
        sc.keys.clear();
        for (auto x : u) sc.keys.push_back(D::to_key(std::min(R, base + x)));
        sc.family = "ef_pow2_last_segment";
    }
    EfExtra ex;
    run_static<K, Idx, Eps>(c, sc, variant_which(c), ex);
}
#define VF_EF_ENUM(K, E, F)                                                                                            \
    VF_REGISTER(std::string("ef/") + ::vf::KT<K>::name() + ",e" #E "," #F "#enum", (&::vf::ef_case<K, E, F, 2>), 8.6)
#define VF_EF_BIG(K, E, F)                                                                                             \
    VF_REGISTER(std::string("ef/") + ::vf::KT<K>::name() + ",e" #E "," #F "#big", (&::vf::ef_case<K, E, F, 3>), 0.0051)
#define VF_EF_SWEEP(K, E, F)                                                                                           \
    VF_REGISTER(std::string("ef/") + ::vf::KT<K>::name() + ",e" #E "," #F "#sweep", (&::vf::ef_case<K, E, F, 4>), 0.0003)
#define VF_EF_HUGE(K, E, F)                                                                                            \
    VF_REGISTER(std::string("ef/") + ::vf::KT<K>::name() + ",e" #E "," #F "#huge", (&::vf::ef_case<K, E, F, 1>), 0.0003)
#define VF_EF(K, E, F)                                                                                                 \
    VF_REGISTER(std::string("ef/") + ::vf::KT<K>::name() + ",e" #E "," #F, (&::vf::ef_case<K, E, F>), 1.0)

} // namespace vf

// Engine `segmentation`: pgm::internal::make_segmentation{,_par} driven directly, with the add_point recorder (hook H1)
// and an exact rational feasibility oracle that is independent of the builder (C03, C04).
#include <omp.h>
#include "pgm/piecewise_linear_model.hpp"
#include "vf_gen.hpp"

#ifndef VF_GROUP
#define VF_GROUP 0
#endif
#if VF_GROUP == 0
int vf_fake_procs = 32;
extern "C" int omp_get_num_procs(void) { return vf_fake_procs; }
#else
extern int vf_fake_procs;
#endif

namespace pgm_verif {
struct Access {
    template<class CS> static const auto &rect(const CS &cs) { return cs.rectangle; }
    template<class CS> static bool one_point(const CS &cs) { return cs.one_point(); }
};
} // namespace pgm_verif

namespace vf {

typedef __int128 I;
struct P {
    I x, y;
};
static inline I cross(const P &o, const P &a, const P &b) { return (a.x - o.x) * (b.y - o.y) - (a.y - o.y) * (b.x - o.x); }

/// Exact test: does a line exist that stays within [max(y-eps,0), y+eps] at every point?  Sandwich theorem: the upper
/// convex hull g of the lower band ends must lie on or below the lower convex hull h of the upper band ends at every
/// hull vertex. All arithmetic in __int128 (|x| < 2^64, |y| < 2^34 => products < 2^100).
static bool feasible(const P *pts, size_t m, I eps, uint64_t *work = nullptr) {
    if (m <= 1) return true;
    static thread_local std::vector<P> g, h;
    g.clear();
    h.clear();
    for (size_t i = 0; i < m; i++) {
        P lo{pts[i].x, pts[i].y - eps < 0 ? 0 : pts[i].y - eps}, up{pts[i].x, pts[i].y + eps};
        while (g.size() >= 2 && cross(g[g.size() - 2], g.back(), lo) >= 0) g.pop_back();
        g.push_back(lo);
        while (h.size() >= 2 && cross(h[h.size() - 2], h.back(), up) <= 0) h.pop_back();
        h.push_back(up);
    }
    if (work) *work += m;
    auto ok = [&](const std::vector<P> &poly, const P &v, bool is_g) {
        if (poly.size() == 1) return is_g ? poly[0].y <= v.y : poly[0].y >= v.y;
        size_t a = 0, b = poly.size() - 1;
        while (b - a > 1) {
            size_t mid = (a + b) / 2;
            if (poly[mid].x <= v.x) a = mid;
            else b = mid;
        }
        const P &A = poly[a], &B = poly[b];
        I l = (B.y - A.y) * (v.x - A.x), r = (v.y - A.y) * (B.x - A.x);
        return is_g ? l <= r : l >= r;
    };
    for (auto &v : h)
        if (!ok(g, v, true)) return false;
    for (auto &v : g)
        if (!ok(h, v, false)) return false;
    return true;
}

/// Minimum number of segments for the point sequence: greedy longest feasible prefix (exponential + binary search).
static size_t opt_count(const std::vector<P> &pts, I eps, uint64_t *work) {
    size_t i = 0, c = 0, n = pts.size();
    while (i < n) {
        size_t len = 1;
        while (i + len < n) {
            size_t nl = std::min(2 * len, n - i);
            if (!feasible(&pts[i], nl, eps, work)) break;
            len = nl;
        }
        size_t lo = len, hi = std::min(2 * len, n - i);
        while (lo < hi) {
            size_t mid = (lo + hi + 1) / 2;
            if (feasible(&pts[i], mid, eps, work)) lo = mid;
            else hi = mid - 1;
        }
        i += lo;
        c++;
    }
    return c;
}

template<class K> struct SegCase {
    std::vector<K> keys;
    size_t eps = 1;
    int threads = 1;
    int procs = 32; ///< what the interposed omp_get_num_procs() reports: c = min(procs, threads, 20)
    std::string family;
};

template<class K> static I toI(K v) { return I(v); }

template<class K, int Mode> // 0: small inputs, 1: chunked builder, 2: one segment spanning more than 2^24 ranks
void seg_case(Ctx &c) {
    constexpr bool Chunked = Mode == 1;
    using Model = pgm::internal::OptimalPiecewiseLinearModel<K, size_t>;
    using Seg = typename Model::CanonicalSegment;
    constexpr bool is_int = std::is_integral_v<K>;
    SegCase<K> sc;
    if (c.given) {
        sc.keys = c.given->vec<K>("keys");
        sc.eps = c.given->one<size_t>("eps", 1);
        sc.threads = c.given->one<int>("threads", 1);
        sc.procs = c.given->one<int>("procs", 32);
        sc.family = c.given->one_str("family", "spec");
    } else {
        sc.eps = c.rng.pick<size_t>({0, 0, 1, 1, 2, 3, 4, 8, 16, 64, 128, 1024});
        if constexpr (Mode == 2) {
            // near-collinear keys, more than 2^24 of them, built sequentially: the optimum is ONE segment whose ranks span
            // more than a float mantissa (any cap, counter width or "safety" split keyed to that span shows as a segment that
            // is not maximal); in half of the cases the slope changes just after rank 2^24, so that a second, short segment follows
            using D = UDom<K>;
            sc.eps = c.rng.pick<size_t>({1, 4, 64, 1024});
            size_t n = (size_t(1) << 24) + 1000 + c.rng.below(c.thorough() ? (size_t(1) << 21) : (size_t(1) << 18));
            uint64_t g = 2 + c.rng.below(sizeof(K) >= 8 ? 1000 : 60);
            bool two = c.rng.chance(1, 2);
            size_t knee = two ? (size_t(1) << 24) + 100 + c.rng.below(800) : n; // the first line alone spans more than 2^24 ranks
            sc.keys.resize(n);
            uint64_t cur = c.rng.below(1000);
            for (size_t i = 0; i < n; ++i) {
                sc.keys[i] = D::to_key(std::min(cur + (i % 5 == 0 ? 1 : 0), D::R));
                cur += i < knee ? g : 3 * g;
            }
            sc.family = two ? "huge_two_lines" : "huge_one_line";
        } else if (Chunked) {
            sc.threads = 1 + int(c.rng.below(20));
            if (c.rng.chance(1, 3)) sc.procs = 1 + int(c.rng.below(24)); // fewer processors than threads: procs bounds the chunks
            size_t maxn = c.thorough() ? (c.case_idx % 8 == 7 ? (size_t(1) << 20) : (size_t(1) << 18)) : (size_t(1) << 16);
            size_t n = (size_t(1) << 15) + c.rng.below(maxn - (size_t(1) << 15) + 1);
            sc.keys = gen_keys<K>(c.rng, std::max<size_t>(sc.eps, 1), n, sc.family, n);
            if constexpr (is_int) {
                if (sizeof(K) >= 4 && c.rng.chance(1, 2)) {
                    // runs of equal keys across the chunk boundaries
                    size_t chunk = n / size_t(sc.threads);
                    for (int i = 1; i < sc.threads && chunk > 2; ++i) {
                        size_t s = size_t(i) * chunk;
                        size_t a = c.rng.pick<size_t>({0, 1, 2, sc.eps + 1, 2 * sc.eps + 2}), b = c.rng.pick<size_t>({0, 1, 2, sc.eps + 1, chunk + 3});
                        size_t lo = s >= a ? s - a : 0, hi = std::min(n, s + b);
                        for (size_t j = lo; j < hi; ++j) sc.keys[j] = sc.keys[lo];
                    }
                    std::sort(sc.keys.begin(), sc.keys.end());
                    sc.family += "+seam_runs";
                }
            }
        } else {
            size_t maxn = c.rng.chance(1, 12) ? 120000 : 4000; // long segments exercise the hull pops
            sc.keys = gen_keys<K>(c.rng, std::max<size_t>(sc.eps, 1), maxn, sc.family);
            if constexpr (is_int && sizeof(K) == 8) {
                if (c.rng.chance(1, 45)) {
                    // one enormous segment whose EVERY point stays a hull vertex: gaps drift by one unit per key, so the
                    // rank-vs-key curve is strictly convex (or concave) yet within eps of a line over > 2^16 keys
                    using D = UDom<K>;
                    size_t n = 70000 + c.rng.below(c.thorough() ? 200000 : 110000);
                    uint64_t G = uint64_t(1) << c.rng.pick<int>({30, 36, 40});
                    bool shrinking = c.rng.chance(1, 2);
                    std::vector<uint64_t> u(n);
                    uint64_t cur = c.rng.below(1000);
                    for (size_t i = 0; i < n; ++i) { u[i] = cur; cur += shrinking ? G - i : G + i; }
                    sc.keys.resize(n);
                    for (size_t i = 0; i < n; ++i) sc.keys[i] = D::to_key(std::min(u[i], D::R));
                    sc.family = "slow_convex_long_segment";
                    if (sc.eps == 0) sc.eps = 1;
                }
            }
            if constexpr (is_int && sizeof(K) == 8) {
                if (c.rng.chance(1, 45)) {
                    // hulls of more than 2^16 vertices (see gen_gentle_curve), the long segment first or after others
                    size_t n = 100000 + c.rng.below(c.thorough() ? 400000 : 150000);
                    sc.keys = gen_gentle_curve<K>(c.rng, n, c.rng.chance(1, 2) ? 500 + c.rng.below(4000) : 0);
                    sc.family = "gentle_curve_big_hull";
                    if (c.rng.chance(2, 3)) sc.eps = c.rng.pick<size_t>({64, 128, 1024});
                }
            }
            if constexpr (is_int) {
                if (c.rng.chance(1, 10) && sc.keys.size() >= 8 && sizeof(K) >= 4 && sc.family != "gentle_curve_big_hull" && sc.family != "slow_convex_long_segment") {
                    // points alternately on y+eps / y-eps of a line: x_i = g*i + (-1)^i * g*eps  (kept sorted)
                    using D = UDom<K>;
                    size_t n = sc.keys.size();
                    uint64_t g = 1 + c.rng.below(1000);
                    uint64_t base = c.rng.chance(1, 2) ? 0 : D::R / 2;
                    std::vector<uint64_t> u(n);
                    for (size_t i = 0; i < n; ++i) {
                        uint64_t x = base + g * (i + sc.eps);
                        u[i] = (i / (2 * sc.eps + 1)) % 2 ? x + g * sc.eps : x - g * sc.eps;
                        u[i] = std::min(u[i], D::R);
                    }
                    std::sort(u.begin(), u.end());
                    for (size_t i = 0; i < n; ++i) sc.keys[i] = D::to_key(u[i]);
                    sc.family = "alternating_band";
                }
            }
        }
    }
    c.dumper = [&]() {
        Spec s;
        s.set_one("config", c.cfg.name);
        s.set_one("case", c.case_idx);
        s.set_one("family", sc.family);
        s.set_one("eps", sc.eps);
        s.set_one("threads", sc.threads);
        s.set_one("procs", sc.procs);
        s.set_vec("keys", sc.keys);
        return s;
    };
    c.traits = sc.family + ",eps=" + std::to_string(sc.eps) + ",t=" + std::to_string(sc.threads) + ",procs=" + std::to_string(sc.procs);
    Hasher hsh;
    hsh.add_vec(sc.keys);
    hsh.add(sc.eps);
    hsh.add(uint64_t(sc.threads));
    hsh.add(uint64_t(sc.procs));
    c.input_hash = hsh.h;
    const size_t n = sc.keys.size();
    if (n == 0) return;
    if constexpr (!is_int) {
        if (!float_domain_ok<K, double>(sc.keys)) {
            c.count("float_domain_rejected");
            return;
        }
    }
    c.predump();
    const size_t eps = sc.eps;
    const bool c03 = c.prop("C03") || c.prop("C17"), c04 = c.prop("C04");

    // ---- run the builder with the recorder armed
    std::vector<Seg> segs;
    auto in = [&](size_t i) { return sc.keys[i]; };
    auto out = [&](const Seg &s) { segs.push_back(s); };
    vf_fake_procs = sc.procs;
    omp_set_num_threads(sc.threads);
    pgm_verif::SegRegistry<K>::instance().take();
    pgm_verif::seg_armed().store(true);
    size_t returned = 0;
    try {
        returned = pgm::internal::make_segmentation_par(n, eps, in, out);
    } catch (...) {
        pgm_verif::seg_armed().store(false);
        omp_set_num_threads(1);
        throw;
    }
    pgm_verif::seg_armed().store(false);
    omp_set_num_threads(1);
    auto scopes = pgm_verif::SegRegistry<K>::instance().take();
    std::sort(scopes.begin(), scopes.end(), [](auto &a, auto &b) { return a.start < b.start; });
    size_t cexp = size_t(std::min(std::min(sc.procs, sc.threads), 20));
    if (cexp <= 1 || n < (size_t(1) << 15)) cexp = 1;
    if (c.prop("C17")) {
        c.nontrivial = segs.size() >= 2;
        return;
    }

    if (returned != segs.size())
        c.violation("returned_count_mismatch", J().num("returned", returned).num("emitted", segs.size()));
    if (scopes.empty() || scopes.size() > cexp) {
        c.violation("recorder_scopes", J().num("scopes", scopes.size()).num("expected_at_most", cexp));
        return;
    }

    // ---- recorded points, concatenated in scope order
    std::vector<std::pair<K, size_t>> pts;
    std::vector<size_t> scope_end; // index in pts where each scope ends
    for (auto &s : scopes) {
        pts.insert(pts.end(), s.points.begin(), s.points.end());
        scope_end.push_back(pts.size());
        decltype(s.points)().swap(s.points); // the concatenation is the only copy kept (the #huge cases hold 2^24 points)
    }
    for (size_t i = 1; i < pts.size(); ++i)
        if (!(pts[i - 1].first < pts[i].first)) {
            c.violation("recorded_points_not_increasing", J().num("index", i).num("x_prev", pts[i - 1].first).num("x", pts[i].first));
            return;
        }
    c.count("points_recorded", pts.size());
    c.count("segments", segs.size());
    c.count("scopes", scopes.size());

    // (4) every distinct key at its first-occurrence rank, and the closing point
    if (c03) {
        size_t pi = 0, missing = 0;
        for (size_t i = 0; i < n; ++i) {
            if (i > 0 && sc.keys[i] == sc.keys[i - 1]) continue;
            while (pi < pts.size() && pts[pi].first < sc.keys[i]) ++pi;
            if (pi == pts.size() || pts[pi].first != sc.keys[i] || pts[pi].second != i) {
                if (missing++ == 0)
                    c.violation("missing_key_point", J().num("key", sc.keys[i]).num("first_rank", i)
                                                        .num("recorded_rank", pi < pts.size() && pts[pi].first == sc.keys[i] ? (long long) pts[pi].second : -1));
            }
        }
        K closing = key_succ(sc.keys[n - 1]);
        if (pts.empty() || pts.back().first != closing || pts.back().second != n)
            c.violation("missing_closing_point", J().num("expected_x", closing).num("expected_y", n));
        // informational: how the recorded set compares with the sequential rule (gap points after duplicate runs)
        size_t seq = 0;
        for (size_t i = 0; i < n; ++i) {
            if (i == 0 || sc.keys[i] != sc.keys[i - 1]) ++seq;
            else if (i + 1 < n && sc.keys[i] != sc.keys[i + 1] && key_succ(sc.keys[i]) < sc.keys[i + 1]) ++seq;
        }
        ++seq;
        if (seq != pts.size()) c.count("cases_point_count_differs_from_sequential_rule");
    }

    // (1) segments in increasing first-key order, (2) partition of the points
    for (size_t j = 1; j < segs.size(); ++j)
        if (!(segs[j - 1].get_first_x() < segs[j].get_first_x())) {
            c.violation("segments_not_increasing", J().num("index", j).num("prev", segs[j - 1].get_first_x()).num("cur", segs[j].get_first_x()));
            return;
        }
    std::vector<size_t> seg_begin(segs.size() + 1, 0);
    {
        size_t pi = 0;
        for (size_t j = 0; j < segs.size(); ++j) {
            seg_begin[j] = pi;
            if (pi >= pts.size() || pts[pi].first != segs[j].get_first_x()) {
                c.violation("partition_broken", J().num("segment", j).num("first_x", segs[j].get_first_x())
                                                    .num("next_uncovered_x", pi < pts.size() ? pts[pi].first : K(0)).num("uncovered_index", pi));
                return;
            }
            if (j + 1 < segs.size()) {
                K nx = segs[j + 1].get_first_x();
                while (pi < pts.size() && pts[pi].first < nx) ++pi;
            } else
                pi = pts.size();
        }
        seg_begin[segs.size()] = pts.size();
    }

    // (3) residuals
    double tight = 0;
    uint64_t judged_points = 0;
    for (size_t j = 0; j < segs.size() && (c03 || c04); ++j) {
        auto fx = segs[j].get_first_x();
        auto [slope, icpt] = segs[j].get_floating_point_segment(fx);
        auto &r = pgm_verif::Access::rect(segs[j]);
        bool one = pgm_verif::Access::one_point(segs[j]);
        for (size_t q = seg_begin[j]; q < seg_begin[j + 1] && c03; ++q) {
            ++judged_points;
            if constexpr (is_int) {
                // exact: | dy*(x-fx) + (I-y)*dx | * 2 <= (2 eps + 1) * dx, slope = dy/dx = (r3-r1) or 0 for one point
                I dy = one ? 0 : I(r[3].y) - I(r[1].y), dx = one ? 1 : I(r[3].x) - I(r[1].x);
                I num = dy * (I(pts[q].first) - I(fx)) + (I(icpt) - I(pts[q].second)) * dx;
                if (num < 0) num = -num;
                if (dx <= 0 || 2 * num > (2 * I(eps) + 1) * dx) {
                    long double e = (long double) num / (long double) dx;
                    c.violation("residual_exceeds_epsilon", J().num("segment", j).num("x", pts[q].first).num("y", pts[q].second)
                                                               .num("abs_error", double(e)).num("eps", eps).num("first_x", fx));
                    break;
                }
                if (eps > 0) tight = std::max(tight, double((long double) num / (long double) dx) / double(eps));
            } else {
                long double pred = slope * ((long double) pts[q].first - (long double) fx) + (long double) icpt;
                long double e = std::fabs(pred - (long double) pts[q].second);
                if (e > (long double) eps + 1.0L + 1e-6L) {
                    c.violation("residual_exceeds_epsilon", J().num("segment", j).num("x", pts[q].first).num("y", pts[q].second)
                                                               .num("abs_error", double(e)).num("eps", eps).num("first_x", fx));
                    break;
                }
                if (eps > 0) tight = std::max(tight, double(e) / double(eps));
            }
        }
    }
    c.count("points_judged", judged_points);
    c.maxf("max_residual_over_eps", tight);

    // ---- C04 (integer keys): feasibility, maximality, minimality, spacing, count bound
    uint64_t work = 0;
    if constexpr (is_int) {
        if (c04) {
            std::vector<P> ip(pts.size());
            for (size_t i = 0; i < pts.size(); ++i) ip[i] = {I(pts[i].first), I(pts[i].second)};
            // which segments are the last of their scope (they may be non-maximal: the chunk ended)
            std::vector<bool> last_of_scope(segs.size(), false);
            {
                size_t si = 0;
                for (size_t j = 0; j < segs.size(); ++j) {
                    while (si < scope_end.size() && seg_begin[j] >= scope_end[si]) ++si;
                    if (seg_begin[j + 1] >= scope_end[si]) last_of_scope[j] = true;
                }
            }
            size_t nonmax = 0, maxtests = 0, close = 0;
            for (size_t j = 0; j < segs.size(); ++j) {
                size_t b = seg_begin[j], e = seg_begin[j + 1];
                if (!feasible(&ip[b], e - b, I(eps), &work))
                    c.violation("segment_infeasible", J().num("segment", j).num("points", e - b).num("first_x", segs[j].get_first_x()).num("eps", eps));
                if (e < ip.size()) {
                    ++maxtests;
                    bool could_extend = feasible(&ip[b], e - b + 1, I(eps), &work);
                    if (could_extend) {
                        ++nonmax;
                        if (!last_of_scope[j])
                            c.violation("segment_not_maximal", J().num("segment", j).num("points", e - b).num("first_x", segs[j].get_first_x())
                                                                   .num("next_x", pts[e].first).num("eps", eps));
                    }
                    // (d) consecutive starts within a scope are more than 2 eps ranks apart
                    if (!last_of_scope[j] && pts[e].second - pts[b].second <= 2 * eps) {
                        ++close;
                        c.violation("segment_starts_too_close", J().num("segment", j).num("start_rank", pts[b].second).num("next_start_rank", pts[e].second).num("eps", eps));
                    }
                }
            }
            c.count("maximality_tests", maxtests);
            c.count("nonmaximal_at_chunk_ends", nonmax);
            if (nonmax > scopes.size() - 1)
                c.violation("too_many_nonmaximal_segments", J().num("nonmaximal", nonmax).num("chunks", scopes.size()));
            // (c) minimality
            if (ip.size() <= 250000) {
                size_t opt = opt_count(ip, I(eps), &work);
                c.count("opt_total", opt);
                c.count("opt_checked_cases");
                if (segs.size() < opt || segs.size() > opt + scopes.size() - 1)
                    c.violation("segment_count_not_minimal", J().num("segments", segs.size()).num("optimum", opt).num("chunks", scopes.size()).num("eps", eps));
                if (scopes.size() == 1 && segs.size() == opt) c.count("sequential_builds_at_optimum");
            }
            // (e) count bound
            if (segs.size() > n / (2 * eps + 1) + cexp + 1)
                c.violation("segments_count_bound", J().num("segments", segs.size()).num("n", n).num("eps", eps).num("chunks", cexp));
            c.count("oracle_hull_work", work);
        }
    }
    c.maxc("max_n", n);
    c.maxc("max_segments", segs.size());
    c.maxc("max_chunks", scopes.size());
    c.count("family_" + sc.family.substr(0, sc.family.find('+')));
    c.count("eps_" + std::to_string(eps));
    size_t maxpts = 0;
    for (size_t j = 0; j < segs.size(); ++j) maxpts = std::max(maxpts, seg_begin[j + 1] - seg_begin[j]);
    c.maxc("max_points_in_segment", maxpts);
    c.nontrivial = segs.size() >= 2 || maxpts >= 3;
    if (c04) c.nontrivial = segs.size() >= 2;
    if (c.want_sample())
        c.sample(J().num("n", n).num("eps", eps).num("threads", sc.threads).num("segments", segs.size()).num("points", pts.size()));
}

#define VF_SEG(K)                                                                                                      \
    VF_REGISTER(std::string("seg/") + ::vf::KT<K>::name() + "#small", (&::vf::seg_case<K, 0>), 1.0);                   \
    VF_REGISTER(std::string("seg/") + ::vf::KT<K>::name() + "#chunk", (&::vf::seg_case<K, 1>), 0.03)
#define VF_SEG_HUGE(K) VF_REGISTER(std::string("seg/") + ::vf::KT<K>::name() + "#huge", (&::vf::seg_case<K, 2>), 0.0004)

#if VF_GROUP == 0
VF_SEG(uint8_t);
VF_SEG(uint64_t);
VF_SEG_HUGE(uint64_t);
#elif VF_GROUP == 1
VF_SEG(uint16_t);
VF_SEG(int64_t);
#elif VF_GROUP == 2
VF_SEG(int16_t);
VF_SEG(uint32_t);
VF_SEG_HUGE(uint32_t);
#elif VF_GROUP == 3
VF_SEG(int32_t);
VF_SEG(float);
#else
VF_SEG(double);
#endif

} // namespace vf

#if VF_GROUP == 0
int main(int argc, char **argv) { return vf::vf_main(argc, argv, "segmentation"); }
#endif

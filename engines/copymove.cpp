#include "copymove.hpp"
namespace {
using namespace pgm;
#if VF_GROUP == 0
VF_CM_STATIC("pgm,u64,e4,er2", uint64_t, PGMIndex<uint64_t, 4, 2>);
VF_CM_CHAIN("pgm,u64,e4,er2", uint64_t, PGMIndex<uint64_t, 4, 2>);
VF_CM_STATIC("pgm,u32,e16,er0", uint32_t, PGMIndex<uint32_t, 16, 0>);
VF_CM_STATIC("pgm,f64,e8,er4", double, PGMIndex<double, 8, 4>);
VF_CM_MD(2, uint32_t, 4);
#elif VF_GROUP == 1
VF_CM_STATIC("comp,u32,e8,er4", uint32_t, CompressedPGMIndex<uint32_t, 8, 4>);
VF_CM_STATIC("comp,u64,e2,er0", uint64_t, CompressedPGMIndex<uint64_t, 2, 0>);
VF_CM_CHAIN("comp,u64,e1,er4", uint64_t, CompressedPGMIndex<uint64_t, 1, 4>);
VF_CM_MULT("comp,u64,e1,er4", uint64_t, CompressedPGMIndex<uint64_t, 1, 4>);
VF_CM_STATIC("comp,u32,e4,er256", uint32_t, CompressedPGMIndex<uint32_t, 4, 256>);
#elif VF_GROUP == 2
VF_CM_STATIC("bucket,u32,e4,top128,bits32", uint32_t, BucketingPGMIndex<uint32_t, 4, 128, 32>);
VF_CM_STATIC("bucket,u64,e8,top100,bits0", uint64_t, BucketingPGMIndex<uint64_t, 8, 100, 0>);
VF_CM_STATIC("ef,u32,e8", uint32_t, EliasFanoPGMIndex<uint32_t, 8>);
VF_CM_STATIC("ef,u64,e2", uint64_t, EliasFanoPGMIndex<uint64_t, 2>);
VF_CM_CHAIN("ef,u64,e1", uint64_t, EliasFanoPGMIndex<uint64_t, 1>);
VF_CM_MULT("ef,u64,e1", uint64_t, EliasFanoPGMIndex<uint64_t, 1>);
VF_CM_CHAIN("bucket,u64,e2,top550,bits0", uint64_t, BucketingPGMIndex<uint64_t, 2, 550, 0>);
VF_CM_MD(3, uint64_t, 16);
#else
VF_CM_DYN("u32,u32,pgm16", uint32_t, uint32_t, PGMIndex<uint32_t, 16>);
VF_CM_DYN("u32,string,pgm4", uint32_t, std::string, PGMIndex<uint32_t, 4>);
VF_CM_DYN("u64,ptr,pgm8", uint64_t, uint64_t *, PGMIndex<uint64_t, 8>);
#endif
}

// Engine `dynamic`: DynamicPGMIndex<K,V,PGMType> histories against std::map (C05, C06), LSM invariants through the
// friend accessor of hook H3 after every update (C15), memory monitor (C17).
#pragma once

#include "pgm/pgm_index_dynamic.hpp"
#include "vf_gen.hpp"
#include <map>
#include <memory>
#include <set>

namespace pgm_verif {
struct Access {
    template<class I> static size_t n(const I &i) { return i.n; }
    template<class I> static auto first_key(const I &i) { return i.first_key; }
    template<class I> static size_t segments(const I &i) { return i.segments.size(); }
};
struct DynamicAccess {
    template<class D> static int base(const D &d) { return d.base; }
    template<class D> static int min_level(const D &d) { return d.min_level; }
    template<class D> static int min_index_level(const D &d) { return d.min_index_level; }
    template<class D> static int used_levels(const D &d) { return d.used_levels; }
    template<class D> static size_t buffer_max_size(const D &d) { return d.buffer_max_size; }
    template<class D> static const auto &levels(const D &d) { return d.levels; }
    template<class D> static const auto &pgms(const D &d) { return d.pgms; }
};
} // namespace pgm_verif

namespace vf {

template<class V> V make_value(uint64_t id) {
    if constexpr (std::is_same_v<V, std::string>) return "v" + std::to_string(id);
    else if constexpr (std::is_pointer_v<V>) {
        static std::remove_pointer_t<V> pool[1024];
        return &pool[id % 1024];
    } else {
        // never the tombstone (max); id 999 maps to the largest value below it
        if (id % 1000 == 999) {
            if constexpr (std::is_floating_point_v<V>) return std::nextafter(std::numeric_limits<V>::max(), V(0));
            else return V(std::numeric_limits<V>::max() - 1);
        }
        return V(id % 1000);
    }
}

struct DynOp {
    char type; // 'I' insert_or_assign, 'E' erase
    uint64_t ukey; // key in the offset-from-lowest domain
    uint64_t vid;
};

struct DynCase {
    int base = 8, bl = 0, il = 0;
    std::vector<std::pair<uint64_t, uint64_t>> bulk; // (ukey, vid), sorted by key, possibly repeated keys
    std::vector<DynOp> ops;
    std::string family, family_override;
};

inline int ilog2c(size_t n) { return n <= 1 ? 0 : 64 - __builtin_clzll(n - 1); }

template<class K>
DynCase gen_dyn_case(Rng &r, bool thorough) {
    using D = UDom<K>;
    DynCase dc;
    const uint64_t R = D::R; // keys strictly below the maximum: [0, R]
    dc.base = r.pick<int>({2, 2, 4, 4, 8, 16, 32, 64, 128});
    int lb = ilog2c(dc.base);
    // keep base^(buffer_level+1) small enough that the constructor's reserve() stays reasonable
    int max_bl = std::max(1, 18 / lb - 1);
    dc.bl = r.chance(1, 5) ? 0 : 1 + int(r.below(std::min(3, max_bl)));
    int min_level = dc.bl ? dc.bl : ((7 + lb - 1) / lb - (dc.base == 2));
    dc.il = r.pick<int>({0, min_level + 1, min_level + 1, min_level + 2});
    size_t maxops = thorough ? 5000 : 400;
    size_t nops = r.chance(1, 10) ? r.below(8) : 1 + r.below(maxops);
    // small key spaces make overwrites, re-insertions and erases of absent keys frequent
    uint64_t keyspace = std::min<uint64_t>(R, r.pick<uint64_t>({20, 50, 200, 1000, 5000, 1u << 20}));
    uint64_t kbase = 0;
    switch (r.below(4)) {
        case 0: kbase = 0; break;                 // includes lowest()
        case 1: kbase = R - keyspace; break;      // includes max-1
        case 2: kbase = r.below(R - keyspace + 1); break;
        default: kbase = (R - keyspace) / 2;
    }
    auto key = [&](uint64_t i) { return kbase + std::min(i, keyspace); };
    // bulk load
    size_t nb = r.chance(1, 3) ? 0 : r.below(std::min<uint64_t>(keyspace * 2, thorough ? 3000 : 300) + 1);
    if (sizeof(K) >= 4 && r.chance(1, 30)) {
        // a level of >= 2^15 items that owns a PGM-index: the index is built by the chunked, multi-threaded builder
        // (thread count = this worker's OMP_NUM_THREADS); dense keys with a handful of far-away keys at the top
        dc.family_override = "big_bulk";
        dc.il = min_level + 1;
        size_t n = (size_t(1) << 15) + r.below(size_t(1) << 15);
        uint64_t step = r.pick<uint64_t>({1, 3, 10});
        keyspace = std::min<uint64_t>(R, n * step + (uint64_t(1) << 30));
        kbase = r.chance(1, 2) ? 0 : R - keyspace;
        size_t tail = 1 + r.below(24);
        for (size_t i = 0; i + tail < n; ++i) dc.bulk.emplace_back(kbase + i * step + r.below(step), r.below(1000));
        for (size_t i = 0; i < tail; ++i) dc.bulk.emplace_back(kbase + keyspace - (tail - i) * (1 + r.below(1000)) * 1000, r.below(1000));
        nb = 0;
        nops = std::min<size_t>(nops, 120);
    }
    for (size_t i = 0; i < nb; ++i) dc.bulk.emplace_back(key(r.below(keyspace + 1)), r.below(1000));
    std::stable_sort(dc.bulk.begin(), dc.bulk.end(), [](auto &a, auto &b) { return a.first < b.first; });
    if (r.chance(1, 2)) // no repeated keys in half of the bulk loads
        dc.bulk.erase(std::unique(dc.bulk.begin(), dc.bulk.end(), [](auto &a, auto &b) { return a.first == b.first; }), dc.bulk.end());
    int pattern = int(r.below(7));
    uint64_t seq = r.below(keyspace + 1);
    static const char *names[] = {"random", "ascending", "descending", "insert_then_erase_all", "erase_only", "shadowing", "hot_keys"};
    dc.family = dc.family_override.empty() ? names[pattern] : dc.family_override;
    for (size_t o = 0; o < nops; ++o) {
        DynOp op{'I', 0, r.below(1000)};
        switch (pattern) {
            case 0: op.ukey = key(r.below(keyspace + 1)); op.type = r.chance(6, 10) ? 'I' : 'E'; break;
            case 1: op.ukey = key(seq++ % (keyspace + 1)); op.type = r.chance(9, 10) ? 'I' : 'E'; break;
            case 2: op.ukey = key((seq-- + keyspace + 1) % (keyspace + 1)); op.type = r.chance(9, 10) ? 'I' : 'E'; break;
            case 3: // insert everything, then erase everything (permanent deletion at the last level)
                op.ukey = key((o % (nops / 2 + 1)) % (keyspace + 1));
                op.type = o < nops / 2 ? 'I' : 'E';
                break;
            case 4: op.ukey = key(r.below(keyspace + 1)); op.type = r.chance(9, 10) ? 'E' : 'I'; break;
            case 5: { // insert k, push it down, erase k, push the tombstone down, re-insert k
                uint64_t hot = key(7 % (keyspace + 1));
                size_t period = 3 + size_t(dc.base) * 2;
                size_t ph = o % (3 * period);
                if (ph == 0) { op.ukey = hot; op.type = 'I'; }
                else if (ph == period) { op.ukey = hot; op.type = 'E'; }
                else if (ph == 2 * period) { op.ukey = hot; op.type = 'I'; }
                else { op.ukey = key(r.below(keyspace + 1)); if (op.ukey == hot) op.ukey = key((7 + 1) % (keyspace + 1)); op.type = r.chance(8, 10) ? 'I' : 'E'; }
                break;
            }
            default: op.ukey = key(r.chance(1, 2) ? r.below(std::min<uint64_t>(keyspace, 8) + 1) : r.below(keyspace + 1)); op.type = r.chance(1, 2) ? 'I' : 'E';
        }
        dc.ops.push_back(op);
    }
    return dc;
}

/// Bounded-exhaustive histories: two initial states (empty / bulk-load of 6 keys) x every sequence of 1..5 operations
/// drawn from {insert_or_assign, erase} x 5 keys (two present in the bulk load, three not), on the smallest geometry
/// (base 2, buffer_level 1 => buffer of 3, index_level 2 => every deeper level owns a PGM-index).
constexpr uint64_t kDynEnumPerState = 10 + 100 + 1000 + 10000 + 100000;
inline bool gen_dyn_enum_case(uint64_t idx, DynCase &dc, uint64_t kbase) {
    if (idx >= 2 * kDynEnumPerState) return false;
    dc.base = 2; dc.bl = 1; dc.il = 2;
    dc.family = "enum_histories";
    bool bulk = idx >= kDynEnumPerState;
    uint64_t r = idx % kDynEnumPerState;
    if (bulk)
        for (uint64_t k = 10; k <= 60; k += 10) dc.bulk.emplace_back(kbase + k, k);
    unsigned L = 1;
    for (uint64_t c = 10; r >= c; c *= 10) { r -= c; ++L; }
    static const uint64_t keys[5] = {20, 25, 30, 35, 65};
    for (unsigned i = 0; i < L; ++i) {
        unsigned d = unsigned(r % 10);
        r /= 10;
        dc.ops.push_back({d < 5 ? 'I' : 'E', kbase + keys[d % 5], 100 + i});
    }
    return true;
}

inline Spec dyn_spec(const Ctx &c, const DynCase &dc) {
    Spec s;
    s.set_one("config", c.cfg.name);
    s.set_one("case", c.case_idx);
    s.set_one("family", dc.family);
    s.set_one("base", dc.base);
    s.set_one("buffer_level", dc.bl);
    s.set_one("index_level", dc.il);
    std::vector<std::string> b, o;
    for (auto &p : dc.bulk) b.push_back(std::to_string(p.first) + ":" + std::to_string(p.second));
    for (auto &op : dc.ops) o.push_back(std::string(1, op.type) + ":" + std::to_string(op.ukey) + ":" + std::to_string(op.vid));
    s.f["bulk_ukey_vid"] = b;
    s.f["ops_type_ukey_vid"] = o;
    return s;
}

inline DynCase dyn_from_spec(const Spec &s) {
    DynCase dc;
    dc.base = s.one<int>("base", 8);
    dc.bl = s.one<int>("buffer_level", 0);
    dc.il = s.one<int>("index_level", 0);
    dc.family = s.one_str("family", "spec");
    for (auto &t : s.get("bulk_ukey_vid")) {
        auto p = t.find(':');
        dc.bulk.emplace_back(strtoull(t.c_str(), nullptr, 10), strtoull(t.c_str() + p + 1, nullptr, 10));
    }
    for (auto &t : s.get("ops_type_ukey_vid")) {
        auto p = t.find(':', 2);
        dc.ops.push_back({t[0], strtoull(t.c_str() + 2, nullptr, 10), strtoull(t.c_str() + p + 1, nullptr, 10)});
    }
    return dc;
}

/// C15: the LSM invariants, read between API calls. Returns nullptr or a description; fills stats.
struct InvStats {
    int nonempty_levels = 0, indexed_nonempty = 0, tombstones = 0;
    size_t total = 0;
    double max_fill = 0;
};

template<class Dyn>
std::string check_invariants(const Dyn &x, InvStats &st) {
    using A = pgm_verif::DynamicAccess;
    auto &levels = A::levels(x);
    auto &pgms = A::pgms(x);
    const int base = A::base(x), minl = A::min_level(x), mil = A::min_index_level(x), used = A::used_levels(x);
    const int lb = ilog2c(size_t(base));
    size_t buffer_cap = 0;
    for (int j = 0; j <= minl; ++j) buffer_cap += size_t(1) << (j * lb);
    char buf[256];
    for (size_t li = 0; li < levels.size(); ++li) {
        int lev = int(li) + minl;
        auto &L = levels[li];
        for (size_t j = 1; j < L.size(); ++j)
            if (!(L[j - 1].first < L[j].first)) {
                snprintf(buf, sizeof buf, "level %d is not strictly sorted at position %zu", lev, j);
                return buf;
            }
        size_t cap = li == 0 ? buffer_cap : (lev * lb >= 63 ? SIZE_MAX : size_t(1) << (lev * lb));
        if (L.size() > cap) {
            snprintf(buf, sizeof buf, "level %d holds %zu entries, capacity %zu", lev, L.size(), cap);
            return buf;
        }
        if (!L.empty()) {
            ++st.nonempty_levels;
            st.total += L.size();
            st.max_fill = std::max(st.max_fill, double(L.size()) / double(cap));
            for (auto &it : L) st.tombstones += it.deleted() ? 1 : 0;
        }
        if (lev >= used && !L.empty()) {
            snprintf(buf, sizeof buf, "level %d beyond used_levels=%d holds %zu entries", lev, used, L.size());
            return buf;
        }
        if (lev >= mil) {
            size_t pi = size_t(lev - mil);
            if (!L.empty()) {
                ++st.indexed_nonempty;
                if (pi >= pgms.size()) {
                    snprintf(buf, sizeof buf, "level %d is not empty but owns no index", lev);
                    return buf;
                }
                auto &p = pgms[pi];
                if (pgm_verif::Access::n(p) != L.size()) {
                    snprintf(buf, sizeof buf, "index of level %d was built over %zu keys, the level holds %zu", lev, pgm_verif::Access::n(p), L.size());
                    return buf;
                }
                if (pgm_verif::Access::first_key(p) != L[0].first) {
                    snprintf(buf, sizeof buf, "index of level %d has a stale first key", lev);
                    return buf;
                }
                for (size_t j = 0; j < L.size(); ++j) {
                    auto r = p.search(L[j].first);
                    if (!(r.lo <= j && j < r.hi)) {
                        snprintf(buf, sizeof buf, "index of level %d does not bracket the key at position %zu ([%zu,%zu))", lev, j, r.lo, r.hi);
                        return buf;
                    }
                }
            } else if (pi < pgms.size() && pgm_verif::Access::segments(pgms[pi]) != 0) {
                snprintf(buf, sizeof buf, "level %d is empty but its index was not reset (%zu segments)", lev, pgm_verif::Access::segments(pgms[pi]));
                return buf;
            }
        }
    }
    return "";
}

template<class K, class V, class PGMType, bool Enum = false>
void dyn_case(Ctx &c) {
    using Dyn = pgm::DynamicPGMIndex<K, V, PGMType>;
    using D = UDom<K>;
    using A = pgm_verif::DynamicAccess;
    DynCase dc;
    if (c.given) dc = dyn_from_spec(*c.given);
    else if (Enum) {
        if (!gen_dyn_enum_case(c.case_idx, dc, (c.case_idx / 7) % 2 ? D::R - 100 : 0)) { c.count("enum_cases_past_the_end"); return; }
        c.count("enum_cases");
        c.maxc("enum_space_per_configuration", 2 * kDynEnumPerState);
    } else dc = gen_dyn_case<K>(c.rng, c.thorough());
    c.dumper = [&]() { return dyn_spec(c, dc); };
    c.traits = dc.family + ",base=" + std::to_string(dc.base) + ",bl=" + std::to_string(dc.bl) + ",il=" + std::to_string(dc.il);
    Hasher h;
    h.add(dc.base); h.add(dc.bl); h.add(dc.il);
    for (auto &p : dc.bulk) { h.add(p.first); h.add(p.second); }
    for (auto &o : dc.ops) { h.add(o.type); h.add(o.ukey); h.add(o.vid); }
    c.input_hash = h.h;
    c.predump();

    const bool c05 = c.prop("C05"), c06 = c.prop("C06"), c15 = c.prop("C15");
    std::map<K, V> m;
    std::vector<std::pair<K, V>> bulk;
    for (auto &p : dc.bulk) bulk.emplace_back(D::to_key(p.first), make_value<V>(p.second));
    for (auto &p : bulk) m.insert(p); // first one wins
    std::unique_ptr<Dyn> xp(new Dyn(bulk.begin(), bulk.end(), uint8_t(dc.base), uint8_t(dc.bl), uint8_t(dc.il)));
    Dyn &x = *xp;

    std::set<K> probe_keys;
    for (auto &p : bulk) probe_keys.insert(p.first);
    const K kmax = K(std::numeric_limits<K>::max() - 1), kmin = std::numeric_limits<K>::lowest();
    uint64_t n_find = 0, n_lb = 0, n_steps = 0, n_ranges = 0, n_states = 0, n_obs = 0, merges_deep = 0, live_erases = 0;
    uint64_t obs_3levels_tomb = 0, rebuilds = 0, resets = 0, indexed_lookups = 0;
    int max_used = 0, max_indexed = 0;
    std::vector<size_t> prev_sizes;
    bool stop = false;

    auto where = [&](long long opi) { return J().num("after_op", opi).num("map_size", m.size()); };

    auto point_queries = [&](K k, long long opi) {
        auto it = x.find(k);
        auto mi = m.find(k);
        ++n_find;
        bool f = !(it == x.end());
        if (f != (mi != m.end()) || (f && !(it->second == mi->second) ) || (f && it->first != k))
            c.violation("find_mismatch", where(opi).num("key", k).boolean("found", f).boolean("expected_found", mi != m.end()));
        size_t cnt = x.count(k);
        if (cnt != (mi != m.end() ? 1u : 0u))
            c.violation("count_mismatch", where(opi).num("key", k).num("count", cnt));
        auto lb = x.lower_bound(k);
        auto ml = m.lower_bound(k);
        ++n_lb;
        bool lf = !(lb == x.end());
        if (lf != (ml != m.end()) || (lf && (lb->first != ml->first || !(lb->second == ml->second))))
            c.violation("lower_bound_mismatch", where(opi).num("key", k).boolean("found", lf).boolean("expected_found", ml != m.end())
                                                    .num("got_key", lf ? K(lb->first) : K(0)).num("expected_key", ml != m.end() ? K(ml->first) : K(0)));
    };

    auto walk_from = [&](K k, long long opi, bool from_begin) {
        auto it = from_begin ? x.begin() : x.lower_bound(k);
        auto mi = from_begin ? m.begin() : m.lower_bound(k);
        size_t steps = 0, limit = m.size() + 2;
        while (!(it == x.end())) {
            if (mi == m.end() || it->first != mi->first || !(it->second == mi->second)) {
                c.violation("iteration_mismatch", where(opi).num("start_key", k).boolean("from_begin", from_begin).num("step", steps)
                                                      .num("got_key", K(it->first)).num("expected_key", mi == m.end() ? K(0) : K(mi->first))
                                                      .boolean("expected_end", mi == m.end()));
                return;
            }
            ++it;
            ++mi;
            if (++steps > limit) {
                c.violation("iteration_does_not_terminate", where(opi).num("start_key", k).num("steps", steps));
                return;
            }
        }
        n_steps += steps;
        if (mi != m.end())
            c.violation("iteration_too_short", where(opi).num("start_key", k).boolean("from_begin", from_begin).num("steps", steps).num("missing_key", K(mi->first)));
    };

    auto range_query = [&](K lo, K hi, long long opi) {
        auto r = x.range(lo, hi);
        ++n_ranges;
        std::vector<std::pair<K, V>> e;
        for (auto q = m.lower_bound(lo); q != m.end() && q->first <= hi; ++q) e.push_back(*q);
        if (r != e)
            c.violation("range_mismatch", where(opi).num("lo", lo).num("hi", hi).num("got", r.size()).num("expected", e.size()));
    };

    auto observe = [&](long long opi, bool full, K recent) {
        ++n_obs;
        InvStats st;
        if (!c15) check_invariants(x, st); // statistics only
        if (st.nonempty_levels >= 3 && st.tombstones > 0) ++obs_3levels_tomb;
        std::vector<K> probe;
        if (full) probe.assign(probe_keys.begin(), probe_keys.end());
        else {
            auto itp = probe_keys.lower_bound(recent);
            for (int i = 0; i < 3 && itp != probe_keys.end(); ++i, ++itp) probe.push_back(*itp);
            for (int i = 0; i < 10 && !probe_keys.empty(); ++i) {
                auto it2 = probe_keys.lower_bound(D::to_key(D::to_u(*probe_keys.begin()) + c.rng.below(D::to_u(*probe_keys.rbegin()) - D::to_u(*probe_keys.begin()) + 1)));
                if (it2 != probe_keys.end()) probe.push_back(*it2);
            }
        }
        if (probe.size() > 1500) { // sample
            std::vector<K> s2;
            for (size_t i = 0; i < probe.size(); i += probe.size() / 1500 + 1) s2.push_back(probe[i]);
            for (size_t i = probe.size() - 40; i < probe.size(); ++i) s2.push_back(probe[i]); // the top end, key by key
            for (size_t i = 0; i < 20; ++i) s2.push_back(probe[i]);
            probe.swap(s2);
        }
        std::vector<K> qs;
        for (K k : probe) {
            qs.push_back(k);
            if (k > kmin) qs.push_back(K(k - 1));
            if (k < kmax) qs.push_back(K(k + 1));
        }
        qs.push_back(kmin);
        qs.push_back(kmax);
        qs.push_back(recent);
        for (int i = 0; i < 3; ++i) qs.push_back(D::to_key(c.rng.below(D::R)));
        if (c05 || c.prop("C17"))
            for (K k : qs) point_queries(k, opi);
        if (c06 || c.prop("C17")) {
            walk_from(kmin, opi, true);
            size_t starts = full ? std::min<size_t>(qs.size(), 40) : 4;
            for (size_t i = 0; i < starts; ++i) walk_from(qs[c.rng.below(qs.size())], opi, false);
            if (!m.empty()) {
                walk_from(m.rbegin()->first, opi, false);                    // the largest key: nothing follows
                if (m.rbegin()->first < kmax) walk_from(K(m.rbegin()->first + 1), opi, false);
            }
            size_t nr = full ? 12 : 3;
            for (size_t i = 0; i < nr; ++i) {
                K a = qs[c.rng.below(qs.size())], b = qs[c.rng.below(qs.size())];
                if (a > b) std::swap(a, b);
                range_query(a, b, opi);
            }
            range_query(kmin, kmax, opi);
            range_query(recent, recent, opi);
            size_t sz = x.size();
            if (sz != m.size()) c.violation("size_mismatch", where(opi).num("size", sz));
            if (x.empty() != m.empty()) c.violation("empty_mismatch", where(opi).boolean("empty", x.empty()));
        }
    };

    auto state_check = [&](long long opi) {
        ++n_states;
        InvStats st;
        std::string e = check_invariants(x, st);
        max_used = std::max(max_used, A::used_levels(x) - A::min_level(x));
        max_indexed = std::max(max_indexed, st.indexed_nonempty);
        c.maxf("max_level_fill_ratio", st.max_fill);
        if (!e.empty()) {
            c.violation("lsm_invariant", where(opi).str("what", e).num("base", dc.base).num("min_level", A::min_level(x)).num("min_index_level", A::min_index_level(x)));
            stop = true;
        }
    };

    auto level_sizes = [&]() {
        std::vector<size_t> s;
        for (auto &L : A::levels(x)) s.push_back(L.size());
        return s;
    };

    if (c15) state_check(-1);
    observe(-1, true, kmin);
    prev_sizes = level_sizes();
    const size_t nops = dc.ops.size();
    for (size_t o = 0; o < nops && !stop && c.violations_in_case < 3; ++o) {
        auto &op = dc.ops[o];
        K k = D::to_key(op.ukey);
        probe_keys.insert(k);
        if (op.type == 'I') {
            V v = make_value<V>(op.vid);
            x.insert_or_assign(k, v);
            m[k] = v;
        } else {
            if (m.count(k)) ++live_erases;
            x.erase(k);
            m.erase(k);
        }
        // merge accounting: a level other than the buffer grew => a merge into it happened
        auto sizes = level_sizes();
        for (size_t li = 1; li < sizes.size(); ++li) {
            if (li < prev_sizes.size() && sizes[li] > prev_sizes[li]) {
                if (li >= 2) ++merges_deep;
                c.count("merges_into_level_offset_" + std::to_string(std::min<size_t>(li, 9)));
                if (int(li) + A::min_level(x) >= A::min_index_level(x)) ++rebuilds;
            }
            if (li < prev_sizes.size() && sizes[li] == 0 && prev_sizes[li] > 0 && int(li) + A::min_level(x) >= A::min_index_level(x)) ++resets;
        }
        prev_sizes.swap(sizes);
        if (c15) state_check((long long) o);
        bool obs = Enum || (c.thorough() ? (o < 500 || o % 5 == 0) : (o < 40 || o % 7 == 0));
        if (obs || o + 1 == nops) observe((long long) o, Enum || o + 1 == nops, k);
    }
    c.count("operations", nops);
    c.count("find_calls", n_find);
    c.count("lower_bound_calls", n_lb);
    c.count("iterator_steps", n_steps);
    c.count("range_calls", n_ranges);
    c.count("states_inspected", n_states);
    c.count("observations", n_obs);
    c.count("deep_merges", merges_deep);
    c.count("erases_of_live_keys", live_erases);
    c.count("index_rebuilds_seen", rebuilds);
    c.count("index_resets_seen", resets);
    c.count("observations_3levels_with_tombstone", obs_3levels_tomb);
    c.count("family_" + dc.family);
    c.count("base_" + std::to_string(dc.base));
    c.maxc("max_used_levels", max_used);
    c.maxc("max_indexed_levels_nonempty", max_indexed);
    c.maxc("max_map_size", m.size());
    if (c15) c.nontrivial = max_indexed >= 2;
    else if (c06) c.nontrivial = obs_3levels_tomb > 0;
    else c.nontrivial = merges_deep > 0 && live_erases > 0;
    if (c.prop("C17")) c.nontrivial = nops > 0;
    if (c.want_sample())
        c.sample(J().num("ops", nops).num("bulk", dc.bulk.size()).num("final_size", m.size()).num("max_used_levels", max_used));
}

#define VF_DYN(NAME, K, V, ...)                                                                                        \
    VF_REGISTER(std::string("dyn/") + NAME, (&::vf::dyn_case<K, V, __VA_ARGS__>), 1.0)
#define VF_DYN_ENUM(NAME, K, V, ...)                                                                                   \
    VF_REGISTER(std::string("dyn/") + NAME + "#enum", (&::vf::dyn_case<K, V, __VA_ARGS__, true>), 112.0)

} // namespace vf

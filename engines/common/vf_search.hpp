// Oracles for the "search contract" shared by PGMIndex and its static variants (C01, C02, C08, C09, C10, C18).
#pragma once

#include "vf_gen.hpp"

namespace vf {

struct SearchCounters {
    uint64_t queries = 0, present = 0, absent = 0, far = 0, after_run = 0, below_first = 0, above_last = 0, gap = 0;
    uint64_t width_max = 0;
};

template<class K> struct SearchVerdict {
    bool ok = true;
    const char *kind = "";
    K q{};
    size_t lo = 0, hi = 0, pos = 0, expect = 0;
};

/// Judges one search result against the sorted array.
///   check_present: C01 clauses (width, lo <= pos, first occurrence strictly inside) for present keys
///   check_lb:      C02 clause (local lower_bound == global lower_bound)
/// Range well-formedness (lo <= hi <= n) is part of both.
template<class K, class R>
inline const char *judge_search(const std::vector<K> &a, const K &q, const R &r, size_t eps, bool check_present,
                                bool check_lb, bool check_width_always, size_t &expect_out) {
    const size_t n = a.size();
    size_t g = std::lower_bound(a.begin(), a.end(), q) - a.begin();
    expect_out = g;
    if (!(r.lo <= r.hi && r.hi <= n))
        return "range_malformed";
    bool present = g < n && a[g] == q;
    if ((check_width_always || (check_present && present)) && r.hi - r.lo > 2 * eps + 2)
        return "range_too_wide";
    if (check_present && present) {
        if (!(r.lo <= r.pos))
            return "pos_below_lo";
        if (!(r.lo <= g && g < r.hi))
            return "first_occurrence_outside";
    }
    if (check_lb) {
        size_t l = std::lower_bound(a.begin() + r.lo, a.begin() + r.hi, q) - a.begin();
        if (l != g)
            return "lower_bound_mismatch";
    }
    return nullptr;
}

template<class K>
inline void classify_query(const std::vector<K> &a, const K &q, SearchCounters &c) {
    const size_t n = a.size();
    size_t g = std::lower_bound(a.begin(), a.end(), q) - a.begin();
    ++c.queries;
    if (g < n && a[g] == q) {
        ++c.present;
        return;
    }
    ++c.absent;
    if (g == 0) ++c.below_first;
    else if (g == n) ++c.above_last;
    else ++c.gap;
    if (g > 1 && a[g - 1] == a[g - 2] && q == key_succ(a[g - 1])) ++c.after_run;
    if constexpr (std::is_integral_v<K>) {
        using U = std::make_unsigned_t<K>;
        U d1 = g > 0 ? U(U(q) - U(a[g - 1])) : std::numeric_limits<U>::max();
        U d2 = g < n ? U(U(a[g]) - U(q)) : std::numeric_limits<U>::max();
        U d = std::min(d1, d2);
        if (d >= (U(1) << (sizeof(K) * 8 - 1))) ++c.far;
    }
}

} // namespace vf

// How the queried object came to be: an index held by value is copied, moved, assigned and relocated by containers and
// remains "the index over this input". Used by the static and multidimensional engines.
#pragma once
#include "vf.hpp"
#include <memory>
#include <type_traits>
#include <vector>

namespace vf {

/// 0..3: the object as constructed; 4: copy-constructed, source destroyed; 5: move-constructed, source destroyed;
/// 6: copy-assigned to a default-constructed object, source destroyed; 7: held in a std::vector that reallocates.
template<class Idx>
std::unique_ptr<Idx> object_lifecycle(Ctx &c, std::unique_ptr<Idx> src, int mode) {
    std::unique_ptr<Idx> out;
    if constexpr (std::is_copy_constructible_v<Idx> && std::is_move_constructible_v<Idx>) {
        if (mode == 4) {
            out.reset(new Idx(*src));
            c.count("objects_copy_constructed");
        } else if (mode == 5) {
            out.reset(new Idx(std::move(*src)));
            c.count("objects_move_constructed");
        } else if (mode == 6) {
            if constexpr (std::is_default_constructible_v<Idx> && std::is_copy_assignable_v<Idx>) {
                out.reset(new Idx());
                *out = *src;
                c.count("objects_copy_assigned");
            }
        } else if (mode == 7) {
            std::vector<Idx> v;
            v.push_back(std::move(*src));
            src.reset();
            for (int i = 0; i < 3; ++i) {
                v.push_back(v.front()); // copies, and relocates the elements when the capacity is exceeded
                v.erase(v.begin());
            }
            v.reserve(v.capacity() + 5);
            out.reset(new Idx(std::move(v.back())));
            c.count("objects_relocated_in_vector");
        }
    }
    if (!out) {
        c.count("objects_as_constructed");
        return src;
    }
    src.reset(); // the source is gone before the first query
    return out;
}

} // namespace vf

// Input generators (sorted key arrays, query sets) shared by the engines.
#pragma once
#include <cmath>

#include "vf.hpp"

namespace vf {

template<class K> struct KT {
    static constexpr bool is_float = std::is_floating_point_v<K>;
    static K lowest() { return std::numeric_limits<K>::lowest(); }
    /// the reserved value (sentinel of the static indexes)
    static K reserved() {
        return std::numeric_limits<K>::has_infinity ? std::numeric_limits<K>::infinity() : std::numeric_limits<K>::max();
    }
    static const char *name() {
        if constexpr (std::is_same_v<K, uint8_t>) return "u8";
        else if constexpr (std::is_same_v<K, int8_t>) return "i8";
        else if constexpr (std::is_same_v<K, uint16_t>) return "u16";
        else if constexpr (std::is_same_v<K, int16_t>) return "i16";
        else if constexpr (std::is_same_v<K, uint32_t>) return "u32";
        else if constexpr (std::is_same_v<K, int32_t>) return "i32";
        else if constexpr (std::is_same_v<K, uint64_t>) return "u64";
        else if constexpr (std::is_same_v<K, int64_t>) return "i64";
        else if constexpr (std::is_same_v<K, float>) return "f32";
        else if constexpr (std::is_same_v<K, double>) return "f64";
        else return "?";
    }
};

/// Integer keys are generated in the "offset from lowest()" domain u in [0, R], R = (unsigned max) - 1, which keeps the
/// order and makes lowest()/max-1 easy to hit for signed and unsigned types alike.
template<class K> struct UDom {
    using U = std::make_unsigned_t<K>;
    static constexpr uint64_t R = uint64_t(std::numeric_limits<U>::max()) - 1; // largest valid offset (max-1)
    static K to_key(uint64_t u) { return K(U(U(u) + U(std::numeric_limits<K>::lowest()))); }
    static uint64_t to_u(K k) { return uint64_t(U(U(k) - U(std::numeric_limits<K>::lowest()))); }
};

inline size_t pick_n(Rng &r, size_t maxn) {
    uint64_t d = r.below(100);
    size_t n;
    if (d < 8) n = 1 + r.below(3);
    else if (d < 55) n = 4 + r.below(200);
    else if (d < 88) n = 200 + r.below(std::max<size_t>(maxn / 4, 201) - 200);
    else n = 1 + r.below(maxn);
    return std::min(n, maxn);
}

inline uint64_t sat_add(uint64_t a, uint64_t b, uint64_t R) { return (b > R || a > R - b) ? R : a + b; }

/// Sorted array of n >= 1 integer keys, never containing the reserved value. `eps` steers the run/gap geometry.
template<class K>
std::vector<K> gen_int_keys(Rng &r, size_t eps, size_t maxn, std::string &family, size_t force_n = 0) {
    using D = UDom<K>;
    const uint64_t R = D::R;
    size_t n = force_n ? force_n : pick_n(r, maxn);
    std::vector<uint64_t> u;
    u.reserve(n);
    int fam = int(r.below(13));
    if (n <= 3 && r.chance(2, 3))
        fam = 9;
    auto rnd_base = [&](uint64_t width) -> uint64_t {
        if (width >= R) return 0;
        switch (r.below(4)) {
            case 0: return 0;
            case 1: return R - width;
            case 2: return r.below(R - width + 1);
            default: return std::min<uint64_t>(R - width, (R / 2) + r.below(1000));
        }
    };
    switch (fam) {
        case 0: { // dense with duplicates
            family = "dense_dup";
            uint64_t m = std::max<uint64_t>(1, r.pick<uint64_t>({n / 8 + 1, n / 2 + 1, n, 4 * n, 50}));
            m = std::min(m, R);
            uint64_t b = rnd_base(m);
            for (size_t i = 0; i < n; ++i) u.push_back(b + r.below(m + 1));
            break;
        }
        case 1: { // uniform over the whole type
            family = "uniform";
            for (size_t i = 0; i < n; ++i) u.push_back(R == UINT64_MAX - 1 ? std::min<uint64_t>(r.next(), R) : r.below(R + 1));
            break;
        }
        case 2: { // cluster at max-1
            family = "cluster_high";
            uint64_t w = std::min<uint64_t>(R, r.pick<uint64_t>({3, 20, 200, 4 * n}));
            for (size_t i = 0; i < n; ++i) u.push_back(R - r.below(w + 1));
            break;
        }
        case 3: { // cluster at lowest()
            family = "cluster_low";
            uint64_t w = std::min<uint64_t>(R, r.pick<uint64_t>({3, 20, 200, 4 * n}));
            for (size_t i = 0; i < n; ++i) u.push_back(r.below(w + 1));
            break;
        }
        case 4: { // mostly small, some huge
            family = "mixed_small_huge";
            uint64_t m = std::min<uint64_t>(R, r.pick<uint64_t>({100, 1000, 500}));
            for (size_t i = 0; i < n; ++i)
                u.push_back(r.chance(1, 4) ? (R == UINT64_MAX - 1 ? std::min<uint64_t>(r.next(), R) : r.below(R + 1)) : r.below(m + 1));
            break;
        }
        case 5: { // arithmetic progression (collinear points), optionally with repeated keys
            family = "progression";
            uint64_t rep = r.chance(1, 3) ? 1 + r.below(2 * eps + 4) : 1;
            uint64_t distinct = (n + rep - 1) / rep;
            uint64_t dmax = std::max<uint64_t>(1, R / std::max<uint64_t>(distinct, 1));
            uint64_t d = r.chance(1, 2) ? 1 + r.below(std::min<uint64_t>(dmax, 16)) : 1 + r.below(dmax);
            uint64_t span = d * (distinct - 1);
            uint64_t b = span >= R ? 0 : rnd_base(span);
            for (size_t i = 0; i < n; ++i) u.push_back(std::min(R, b + d * (i / rep)));
            break;
        }
        case 6: { // staircase: runs of consecutive integers then a gap -> points tight on the +-eps band
            family = "staircase";
            uint64_t cur = r.chance(1, 2) ? 0 : rnd_base(std::min<uint64_t>(R, 64 * n));
            while (u.size() < n) {
                size_t L = std::max<int64_t>(1, int64_t(2 * eps) + int64_t(r.below(5)) - 2);
                if (r.chance(1, 6)) L = 1 + r.below(4 * eps + 4);
                for (size_t j = 0; j < L && u.size() < n; ++j) {
                    u.push_back(cur);
                    cur = sat_add(cur, 1, R);
                }
                uint64_t g = r.pick<uint64_t>({1, 2, eps + 1, 2 * eps * L + 1, 1000, R / (n + 1) + 1});
                cur = sat_add(cur, g, R);
            }
            break;
        }
        case 7: { // runs of equal keys with lengths around eps and 2eps+2
            family = "dup_runs";
            uint64_t cur = rnd_base(std::min<uint64_t>(R, 1000 * n));
            while (u.size() < n) {
                size_t L = r.pick<size_t>({1, 1, 2, eps > 1 ? eps - 1 : 1, eps, eps + 1, 2 * eps + 1, 2 * eps + 2, 2 * eps + 3,
                                           10 * eps, 1 + (size_t) r.below(3 * eps + 3)});
                for (size_t j = 0; j < L && u.size() < n; ++j) u.push_back(cur);
                uint64_t g = r.pick<uint64_t>({1, 1, 2, 3, 1 + r.below(100), R / (n + 1) + 1, R / 2});
                cur = sat_add(cur, g, R);
            }
            break;
        }
        case 8: { // two clusters separated by at least half of the type's range
            family = "far_clusters";
            uint64_t w = std::min<uint64_t>(R / 4, r.pick<uint64_t>({10, 100, 4 * n}));
            size_t n_lo = 1 + r.below(n);
            bool dup = r.chance(1, 2);
            for (size_t i = 0; i < n; ++i) {
                uint64_t off = dup ? r.below(w + 1) / 2 * 2 : r.below(w + 1);
                u.push_back(i < n_lo ? off : R - off);
            }
            break;
        }
        case 9: { // tiny arrays over boundary keys
            family = "boundary_tiny";
            std::vector<uint64_t> pool{0, 1, 2, R, R - 1 > R ? 0 : R - 1, R >= 2 ? R - 2 : 0, R / 2, R / 2 + 1, r.below(R + 1)};
            for (size_t i = 0; i < n; ++i) u.push_back(std::min(R, r.pick(pool)));
            break;
        }
        case 10: if (r.chance(1, 2)) { // long stretches of keys getting sparser / denser inside one segment, then a jump:
            // one add_point call has to advance the tangent over many hull vertices
            family = "convex_jumps";
            uint64_t cur = r.below(1000);
            bool mirror = r.chance(1, 3);
            while (u.size() < n) {
                size_t L = 20 + r.below(r.chance(1, 3) ? 1500 : 300);
                uint64_t a = r.pick<uint64_t>({1, 1, 2, 5, 40});
                bool cubic = r.chance(1, 4), shrinking = r.chance(1, 3);
                uint64_t gap = 0;
                for (size_t i = 0; i < L && u.size() < n; ++i) {
                    u.push_back(cur);
                    size_t j = shrinking ? L - i : i + 1;
                    gap = cubic ? a * j * j / 8 + 1 : a * j;
                    cur = sat_add(cur, gap, R);
                }
                cur = sat_add(cur, gap * r.pick<uint64_t>({3, 20, 60, 500}) + r.below(gap + 1), R);
            }
            if (mirror)
                for (auto &x : u) x = R - x;
            break;
        } else { // convex / concave key sequences
            family = "convex";
            bool expo = r.chance(1, 2);
            uint64_t cur = r.below(100);
            int sh = 1 + int(r.below(6));
            for (size_t i = 0; i < n; ++i) {
                u.push_back(cur);
                uint64_t step = expo ? 1 + (cur >> sh) : 1 + i * r.pick<uint64_t>({1, 3, 1000});
                if (r.chance(1, 8)) step = 0;
                cur = sat_add(cur, step, R);
            }
            if (r.chance(1, 2)) // concave: mirror
                for (auto &x : u) x = R - x;
            break;
        }
        case 11: { // dense block then one or two far outliers (steep segment followed by a huge gap)
            family = "dense_then_far";
            uint64_t m = std::min<uint64_t>(R / 2, std::max<uint64_t>(4, n / 2));
            size_t tail = 1 + r.below(std::min<size_t>(3, n));
            for (size_t i = 0; i + tail < n; ++i) u.push_back(r.below(m + 1));
            if (u.empty()) u.push_back(0);
            while (u.size() < n) u.push_back(R - r.below(std::min<uint64_t>(R / 2, 5)));
            break;
        }
        default: { // random walk with heavy-tailed gaps
            family = "heavy_gaps";
            uint64_t cur = rnd_base(R / 2);
            for (size_t i = 0; i < n; ++i) {
                u.push_back(cur);
                int sh = int(r.below(8 * sizeof(K)));
                uint64_t g = r.chance(1, 3) ? 0 : (r.next() >> (63 - std::min(sh, 63))) ;
                cur = sat_add(cur, g, R);
            }
            break;
        }
    }
    for (auto &x : u)
        if (x > R) x = R;
    std::sort(u.begin(), u.end());
    std::vector<K> out(n);
    for (size_t i = 0; i < n; ++i) out[i] = D::to_key(u[i]);
    return out;
}

/// Floating keys (finite, sorted). Magnitudes are kept within 1e-30..1e30.
template<class K>
std::vector<K> gen_float_keys(Rng &r, size_t eps, size_t maxn, std::string &family, size_t force_n = 0) {
    size_t n = force_n ? force_n : pick_n(r, maxn);
    std::vector<K> v;
    v.reserve(n);
    int fam = int(r.below(sizeof(K) == 8 ? 10 : 9));
    auto normal = [&]() {
        double a = r.unit(), b = r.unit();
        return std::sqrt(-2 * std::log(a + 1e-300)) * std::cos(6.283185307179586 * b);
    };
    switch (fam) {
        case 0: family = "lognormal"; for (size_t i = 0; i < n; ++i) v.push_back(K(std::exp(normal() * 2))); break;
        case 1: family = "exponential"; for (size_t i = 0; i < n; ++i) v.push_back(K(-std::log(r.unit() + 1e-300) * 1000)); break;
        case 2: { // integer-valued with short runs
            family = "integer_valued";
            uint64_t m = r.pick<uint64_t>({n / 2 + 1, 4 * n, 1000, 1u << 20});
            for (size_t i = 0; i < n; ++i) v.push_back(K(double(r.below(m + 1))));
            break;
        }
        case 3: family = "negative"; for (size_t i = 0; i < n; ++i) v.push_back(K(-1000.0 + normal() * 300)); break;
        case 4: { // large / small magnitude
            family = "magnitude";
            double s = r.chance(1, 2) ? 1e30 : 1e-30;
            for (size_t i = 0; i < n; ++i) v.push_back(K(s * (1 + r.unit())));
            break;
        }
        case 5: { // nextafter chain: consecutive representable values
            family = "nextafter_chain";
            K cur = K(r.pick<double>({1.0, 1000.5, -3.25, 1e10}));
            for (size_t i = 0; i < n; ++i) {
                v.push_back(cur);
                int steps = r.chance(1, 4) ? 0 : 1 + int(r.below(3));
                for (int s = 0; s < steps; ++s) cur = std::nextafter(cur, std::numeric_limits<K>::infinity());
            }
            break;
        }
        case 6: { // uniform with duplicate runs around eps
            family = "uniform_dup_runs";
            while (v.size() < n) {
                K x = K(r.unit() * 1e6);
                size_t L = r.pick<size_t>({1, 1, 2, eps, 2 * eps + 2, 1 + (size_t) r.below(3 * eps)});
                for (size_t j = 0; j < L && v.size() < n; ++j) v.push_back(x);
            }
            break;
        }
        case 7: { // mixed sign, quarter-integers
            family = "mixed_sign";
            for (size_t i = 0; i < n; ++i) v.push_back(K((double(r.below(4000)) - 2000.0) / 4));
            break;
        }
        case 9: { // (double keys) gaps of 10^20 .. 10^37: bottom-level slopes down to 10^-37 and upper-level slopes, which are
            // smaller by the fan-out of each level, in the subnormal range of a float slope (1.4e-45 .. 1.2e-38), where the
            // library still routes within its window
            family = "wide_gaps";
            double g = std::pow(10.0, 20 + 17 * r.unit()), cur = r.chance(1, 2) ? 0 : -g * double(n) / 2;
            for (size_t i = 0; i < n; ++i) { v.push_back(K(cur)); cur += g * (0.25 + r.unit()); }
            break;
        }
        default: { // staircase in floats
            family = "float_staircase";
            double cur = r.unit() * 100;
            while (v.size() < n) {
                size_t L = std::max<size_t>(1, 2 * eps + r.below(3));
                for (size_t j = 0; j < L && v.size() < n; ++j) {
                    v.push_back(K(cur));
                    cur += 1;
                }
                cur += r.pick<double>({1, double(eps) * 8, 1e5});
            }
        }
    }
    std::sort(v.begin(), v.end());
    return v;
}

template<class K>
std::vector<K> gen_keys(Rng &r, size_t eps, size_t maxn, std::string &family, size_t force_n = 0) {
    if constexpr (std::is_floating_point_v<K>) return gen_float_keys<K>(r, eps, maxn, family, force_n);
    else return gen_int_keys<K>(r, eps, maxn, family, force_n);
}

// ---------------------------------------------------------------------------------------------- bounded-exhaustive enumeration
inline uint64_t binom(unsigned n, unsigned k) {
    if (k > n) return 0;
    uint64_t r = 1;
    for (unsigned i = 1; i <= k; ++i) r = r * (n - k + i) / i;
    return r;
}

/// Small-scope enumeration: every non-decreasing sequence of length 1..NMAX over U consecutive values, at three places of
/// the key type (lowest(), the middle, ending at max-1). `idx` selects one; returns false when idx is past the end.
struct SmallScope {
    unsigned U, NMAX;
    uint64_t per_base() const {
        uint64_t t = 0;
        for (unsigned n = 1; n <= NMAX; ++n) t += binom(U + n - 1, n);
        return t;
    }
    uint64_t total() const { return 3 * per_base(); }
    /// offsets in [0,U) of the idx-th multiset of its length; base selector in 0..2
    bool get(uint64_t idx, std::vector<unsigned> &offs, unsigned &base_sel) const {
        if (idx >= total()) return false;
        base_sel = unsigned(idx / per_base());
        uint64_t r = idx % per_base();
        unsigned n = 1;
        for (; n <= NMAX; ++n) {
            uint64_t c = binom(U + n - 1, n);
            if (r < c) break;
            r -= c;
        }
        // unrank the r-th n-combination of {0..U+n-2} (combinatorial number system), then subtract the position
        offs.assign(n, 0);
        unsigned x = U + n - 1;
        for (unsigned i = n; i >= 1; --i) {
            // largest x' < x with binom(x', i) <= r
            unsigned v = i - 1;
            while (v + 1 < x && binom(v + 1, i) <= r) ++v;
            r -= binom(v, i);
            offs[i - 1] = v - (i - 1);
            x = v;
        }
        return true;
    }
};

template<class K> K key_succ(K k) {
    if constexpr (std::is_floating_point_v<K>) return std::nextafter(k, std::numeric_limits<K>::infinity());
    else return K(k + 1);
}
template<class K> K key_pred(K k) {
    if constexpr (std::is_floating_point_v<K>) return std::nextafter(k, -std::numeric_limits<K>::infinity());
    else return K(k - 1);
}
template<class K> K key_mid(K a, K b) { // a < b
    if constexpr (std::is_floating_point_v<K>) return K(a / 2 + b / 2);
    else {
        using U = std::make_unsigned_t<K>;
        return K(a + K(U(U(b) - U(a)) / 2));
    }
}
/// largest value that is not reserved
template<class K> K key_maxvalid() {
    if constexpr (std::is_floating_point_v<K>) return std::numeric_limits<K>::max();
    else return K(std::numeric_limits<K>::max() - 1);
}

struct QueryStats {
    uint64_t present = 0, absent = 0, after_run = 0, far = 0, gap_mid = 0, below_first = 0, above_last = 0;
};

/// Query set for a sorted array: every distinct key (sampled beyond `cap`), neighbours, gap midpoints, extremes,
/// random and far-away keys. Never contains the reserved value.
template<class K>
std::vector<K> gen_queries(const std::vector<K> &a, Rng &r, size_t cap, bool present_only = false) {
    std::vector<K> q;
    const size_t n = a.size();
    const K lowest = KT<K>::lowest();
    const K maxv = key_maxvalid<K>();
    size_t stride = 1;
    size_t distinct_est = n;
    if (distinct_est > cap) stride = distinct_est / cap + 1;
    size_t phase = stride > 1 ? r.below(stride) : 0;
    for (size_t i = 0; i < n; ++i) {
        if (i > 0 && a[i] == a[i - 1]) continue;
        if (stride > 1 && ((i + phase) % stride) != 0 && i != 0 && i + 1 != n && !r.chance(1, 64)) continue;
        q.push_back(a[i]);
        if (present_only) continue;
        if (a[i] > lowest) q.push_back(key_pred(a[i]));
        if (a[i] < maxv) q.push_back(key_succ(a[i]));
        // end of this run -> gap midpoint
        size_t j = i;
        while (j + 1 < n && a[j + 1] == a[i]) ++j;
        if (j + 1 < n) {
            K m = key_mid(a[j], a[j + 1]);
            if (m > a[j]) q.push_back(m);
        }
    }
    if (!present_only) {
        q.push_back(lowest);
        q.push_back(maxv);
        if (a.front() > lowest) q.push_back(key_pred(a.front()));
        if (a.back() < maxv) q.push_back(key_succ(a.back()));
        if (a.back() < maxv) q.push_back(key_mid(a.back(), maxv));
        if (a.front() > lowest) q.push_back(key_mid(lowest, a.front()));
        for (int i = 0; i < 8; ++i) {
            if constexpr (std::is_floating_point_v<K>) {
                K span = K(a.back() - a.front());
                q.push_back(K(a.front() + span * K(r.unit())));
                q.push_back(K(a.back() + K(std::fabs(double(a.back())) + 1) * K(r.unit() * 1e6)));
                q.push_back(K(-1e35 * r.unit()));
            } else {
                K x = UDom<K>::to_key(UDom<K>::R == UINT64_MAX - 1 ? std::min<uint64_t>(r.next(), UDom<K>::R)
                                                                  : r.below(UDom<K>::R + 1));
                q.push_back(x);
                // just below the reserved value and in the far upper half
                q.push_back(K(maxv - K(r.below(4))));
            }
        }
    }
    // drop anything reserved / non-finite
    std::vector<K> out;
    out.reserve(q.size());
    for (auto x : q) {
        if constexpr (std::is_floating_point_v<K>) {
            if (!std::isfinite(x)) continue;
        } else {
            if (x == std::numeric_limits<K>::max()) continue;
        }
        out.push_back(x);
    }
    return out;
}

/// Floating keys only: is the dataset inside the quantifier's domain ("key density representable in the slope
/// type")? Constraint points follow the sequential builder's rule; every consecutive slope must be finite and small
/// enough for Floating, and n < 2^24.
template<class K, class Floating>
bool float_domain_ok(const std::vector<K> &a) {
    if constexpr (!std::is_floating_point_v<K>) return true;
    else {
        const size_t n = a.size();
        if (n >= (size_t(1) << 24)) return false;
        std::vector<std::pair<long double, long double>> pts;
        pts.emplace_back(a[0], 0);
        for (size_t i = 1; i + 1 < n; ++i) {
            if (a[i] == a[i - 1]) {
                K nx = std::nextafter(a[i], std::numeric_limits<K>::infinity());
                if (nx < a[i + 1]) pts.emplace_back(nx, i);
            } else
                pts.emplace_back(a[i], i);
        }
        if (n >= 2 && a[n - 1] != a[n - 2]) pts.emplace_back(a[n - 1], n - 1);
        K cl = std::nextafter(a[n - 1], std::numeric_limits<K>::infinity());
        if (!std::isfinite(cl)) return false;
        pts.emplace_back(cl, n);
        const long double lim = (long double) std::numeric_limits<Floating>::max() / 4;
        for (size_t i = 1; i < pts.size(); ++i) {
            long double dx = pts[i].first - pts[i - 1].first;
            long double dy = pts[i].second - pts[i - 1].second;
            if (!(dx > 0)) return false;
            long double s = dy / dx;
            if (!std::isfinite((double) s) || s >= lim) return false;
        }
        // keys must be representable differences: reject denormal-scale gaps
        for (size_t i = 1; i < n; ++i)
            if (a[i] != a[i - 1] && double(a[i] - a[i - 1]) < 1e-300) return false;
        return true;
    }
}

/// n integer keys whose gaps change scale from key to key (gap = 1 + random below 2^e, e redrawn per key): hardly any run of
/// keys is close to a line, so an index over them has a segment every few keys - the way to obtain a LARGE NUMBER OF
/// SEGMENTS (hundreds of thousands: succinct directories beyond their small-size special cases) from a moderate n.
template<class K>
std::vector<K> gen_irregular_keys(Rng &r, size_t n) {
    using D = UDom<K>;
    int emax = 1;
    while (emax < 22 && (uint64_t(1) << (emax + 1)) <= D::R / std::max<size_t>(n, 1)) ++emax; // mean gap < 2^emax / 2: fits the type
    std::vector<K> out(n);
    uint64_t cur = r.below(1000);
    for (auto &x : out) {
        x = D::to_key(std::min(cur, D::R));
        cur = sat_add(cur, 1 + (r.next() & ((uint64_t(1) << r.below(uint64_t(emax) + 1)) - 1)), D::R);
    }
    return out;
}

/// n 64-bit keys on a barely curved line, key_i = base + 2^58 * (i/n)^a with a within 2% of 1, optionally after a prefix of
/// irregular keys and a wide gap. The rank-vs-key curve is strictly convex (a < 1) or concave (a > 1) but so flat that, for
/// eps >= 64, ONE segment absorbs 10^5 keys or more while nearly every key stays a vertex of the convex hulls the builder
/// maintains: the hulls grow past any fixed reservation (2^16 vertices in the library) - the regime in which hull storage
/// management, as opposed to hull geometry, is exercised. With the prefix the long segment is not the first of the array.
template<class K>
std::vector<K> gen_gentle_curve(Rng &r, size_t n, size_t prefix) {
    using D = UDom<K>;
    static_assert(sizeof(K) == 8, "64-bit keys only");
    std::vector<uint64_t> u;
    uint64_t cur = r.below(1000);
    for (size_t i = 0; i < prefix; ++i) { u.push_back(cur); cur += 1 + r.below(1000); }
    uint64_t base = prefix ? cur + (uint64_t(1) << 40) : r.below(1000);
    const long double a = r.pick<long double>({0.98L, 0.99L, 0.995L, 1.002L, 1.005L, 1.01L, 1.02L});
    const long double A = (long double) (uint64_t(1) << r.pick<int>({50, 54, 58}));
    for (size_t i = 0; i < n; ++i) u.push_back(std::min<uint64_t>(D::R, base + uint64_t(powl((long double) (i + 1) / n, a) * A)));
    std::sort(u.begin(), u.end());
    std::vector<K> out;
    for (auto v : u) out.push_back(D::to_key(v));
    return out;
}

} // namespace vf

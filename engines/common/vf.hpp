// Common harness runtime for the /verif engines: deterministic RNG, case loop, sharding, crash-attribution protocol,
// violation / sample / summary records (JSON lines), explicit case specs (corpus, replays), ASan witness hook.
#pragma once

#include <algorithm>
#include <cinttypes>
#include <cmath>
#include <cstdint>
#include <cstdio>
#include <cstdlib>
#include <cstring>
#include <exception>
#include <fstream>
#include <functional>
#include <limits>
#include <map>
#include <sstream>
#include <stdexcept>
#include <string>
#include <type_traits>
#include <typeinfo>
#include <vector>
#include <csignal>
#include <unistd.h>

namespace vf {

// ------------------------------------------------------------------------------------------------ RNG / hashing
inline uint64_t splitmix(uint64_t &s) {
    uint64_t z = (s += 0x9E3779B97F4A7C15ull);
    z = (z ^ (z >> 30)) * 0xBF58476D1CE4E5B9ull;
    z = (z ^ (z >> 27)) * 0x94D049BB133111EBull;
    return z ^ (z >> 31);
}

inline uint64_t mix(uint64_t a, uint64_t b) {
    uint64_t s = a ^ (b + 0x9E3779B97F4A7C15ull + (a << 6) + (a >> 2));
    return splitmix(s);
}

inline uint64_t hash_str(const std::string &s) {
    uint64_t h = 1469598103934665603ull;
    for (unsigned char c : s) {
        h ^= c;
        h *= 1099511628211ull;
    }
    return h;
}

struct Rng {
    uint64_t s;
    explicit Rng(uint64_t seed = 1) : s(seed) {}
    uint64_t next() { return splitmix(s); }
    uint64_t operator()() { return next(); }
    /// uniform in [0, n), n >= 1
    uint64_t below(uint64_t n) { return n <= 1 ? 0 : next() % n; }
    /// uniform in [lo, hi]
    uint64_t range(uint64_t lo, uint64_t hi) { return lo + below(hi - lo + 1); }
    bool chance(uint64_t num, uint64_t den) { return below(den) < num; }
    double unit() { return (next() >> 11) * (1.0 / 9007199254740992.0); }
    template<class T> const T &pick(const std::vector<T> &v) { return v[below(v.size())]; }
    template<class T> T pick(std::initializer_list<T> l) { return *(l.begin() + below(l.size())); }
};

struct Hasher {
    uint64_t h = 0x1234567887654321ull;
    void add(uint64_t v) { h = mix(h, v); }
    template<class T> void add_val(const T &v) {
        if constexpr (std::is_floating_point_v<T>) {
            double d = v;
            uint64_t u;
            memcpy(&u, &d, 8);
            add(u);
        } else
            add(uint64_t(v));
    }
    template<class V> void add_vec(const V &v) {
        add(v.size());
        for (auto &x : v)
            add_val(x);
    }
};

// ------------------------------------------------------------------------------------------------ JSON helpers
inline std::string jesc(const std::string &s) {
    std::string o;
    for (unsigned char c : s) {
        if (c == '"' || c == '\\') {
            o += '\\';
            o += c;
        } else if (c == '\n')
            o += "\\n";
        else if (c < 0x20) {
            char b[8];
            snprintf(b, sizeof b, "\\u%04x", c);
            o += b;
        } else
            o += c;
    }
    return o;
}

template<class T> std::string tostr(const T &v) {
    if constexpr (std::is_same_v<T, std::string>)
        return v;
    else if constexpr (std::is_same_v<T, const char *>)
        return v;
    else if constexpr (std::is_same_v<T, bool>)
        return v ? "1" : "0";
    else if constexpr (std::is_floating_point_v<T>) {
        char b[64];
        snprintf(b, sizeof b, "%.17g", double(v));
        return b;
    } else if constexpr (std::is_same_v<T, __int128>) {
        bool neg = v < 0;
        unsigned __int128 u = neg ? -(unsigned __int128) v : (unsigned __int128) v;
        std::string s;
        do {
            s += char('0' + int(u % 10));
            u /= 10;
        } while (u);
        if (neg)
            s += '-';
        std::reverse(s.begin(), s.end());
        return s;
    } else if constexpr (std::is_signed_v<T>)
        return std::to_string((long long) v);
    else
        return std::to_string((unsigned long long) v);
}

template<class T> T fromstr(const std::string &s) {
    if constexpr (std::is_floating_point_v<T>)
        return T(strtod(s.c_str(), nullptr));
    else if constexpr (std::is_signed_v<T>)
        return T(strtoll(s.c_str(), nullptr, 10));
    else
        return T(strtoull(s.c_str(), nullptr, 10));
}

/// A tiny JSON object builder (values are already-encoded JSON fragments).
struct J {
    std::string s;
    bool first = true;
    J() { s = "{"; }
    J &raw(const std::string &k, const std::string &json) {
        if (!first)
            s += ",";
        first = false;
        s += "\"" + jesc(k) + "\":" + json;
        return *this;
    }
    J &str(const std::string &k, const std::string &v) { return raw(k, "\"" + jesc(v) + "\""); }
    template<class T> J &num(const std::string &k, const T &v) {
        if constexpr (std::is_floating_point_v<T>) {
            if (!std::isfinite(double(v)))
                return str(k, tostr(v));
        }
        return raw(k, tostr(v));
    }
    J &boolean(const std::string &k, bool v) { return raw(k, v ? "true" : "false"); }
    template<class V> J &arr(const std::string &k, const V &v, size_t limit = SIZE_MAX) {
        std::string a = "[";
        size_t i = 0;
        for (auto &x : v) {
            if (i == limit) {
                a += ",\"...\"";
                break;
            }
            if (i++)
                a += ",";
            a += "\"" + jesc(tostr(x)) + "\"";
        }
        return raw(k, a + "]");
    }
    std::string done() const { return s + "}"; }
};

// ------------------------------------------------------------------------------------------------ case specs
/// An explicit, self-contained description of one case: named lists of tokens. Used for corpus files, witnesses of
/// violations and replays. Text form: one "name: tok tok tok" per line.
struct Spec {
    std::map<std::string, std::vector<std::string>> f;
    bool has(const std::string &k) const { return f.count(k) > 0; }
    const std::vector<std::string> &get(const std::string &k) const {
        static const std::vector<std::string> empty;
        auto it = f.find(k);
        return it == f.end() ? empty : it->second;
    }
    template<class T> std::vector<T> vec(const std::string &k) const {
        std::vector<T> out;
        for (auto &t : get(k))
            out.push_back(fromstr<T>(t));
        return out;
    }
    template<class T> T one(const std::string &k, T dflt) const {
        auto &v = get(k);
        return v.empty() ? dflt : fromstr<T>(v[0]);
    }
    std::string one_str(const std::string &k, const std::string &dflt = "") const {
        auto &v = get(k);
        return v.empty() ? dflt : v[0];
    }
    template<class V> void set_vec(const std::string &k, const V &v) {
        auto &dst = f[k];
        dst.clear();
        for (auto &x : v)
            dst.push_back(tostr(x));
    }
    template<class T> void set_one(const std::string &k, const T &v) { f[k] = {tostr(v)}; }
    size_t tokens() const {
        size_t t = 0;
        for (auto &kv : f)
            t += kv.second.size();
        return t;
    }
    std::string json() const {
        J j;
        for (auto &kv : f)
            j.arr(kv.first, kv.second);
        return j.done();
    }
    static Spec load(const std::string &path) {
        Spec s;
        std::ifstream in(path);
        if (!in)
            throw std::runtime_error("cannot open spec " + path);
        std::string line;
        while (std::getline(in, line)) {
            auto c = line.find(':');
            if (c == std::string::npos)
                continue;
            std::string name = line.substr(0, c);
            std::istringstream is(line.substr(c + 1));
            std::string tok;
            auto &v = s.f[name];
            while (is >> tok)
                v.push_back(tok);
        }
        return s;
    }
};

// ------------------------------------------------------------------------------------------------ run state
struct Args {
    std::string prop = "C00";
    std::string tier = "quick";
    uint64_t seed = 1;
    uint64_t shard = 0, nshards = 1;
    uint64_t cases = 10;
    uint64_t scale = 1;           ///< engine-specific size multiplier
    std::string out;              ///< output JSONL path ("" = stdout)
    std::string only_config;      ///< run just this config
    std::string config_filter;    ///< substring filter(s), comma separated; empty = all
    std::string exclude_filter;   ///< comma separated substrings to skip
    long long only_case = -1;     ///< run just this case index
    long long resume_cfg = -1, resume_case = -1; ///< skip everything up to and including this (cfg index, case)
    std::string spec_path;        ///< explicit case
    bool list = false;
    int samples = 2;
    unsigned case_timeout = 0;    ///< per-case watchdog in seconds (0 = none): the worker exits with status 124
    std::map<std::string, std::string> extra;
    std::string get(const std::string &k, const std::string &d = "") const {
        auto it = extra.find(k);
        return it == extra.end() ? d : it->second;
    }
    long long geti(const std::string &k, long long d) const {
        auto it = extra.find(k);
        return it == extra.end() ? d : atoll(it->second.c_str());
    }
};

struct Ctx;
using CaseFn = void (*)(Ctx &);

struct Config {
    std::string name;
    CaseFn fn;
    double weight; ///< relative number of cases (1 = args.cases)
};

inline std::vector<Config> &registry() {
    static std::vector<Config> r;
    return r;
}

struct Registrar {
    Registrar(const std::string &name, CaseFn fn, double weight = 1.0) { registry().push_back({name, fn, weight}); }
};

inline int g_asan_hits = 0;
inline int g_tsan_hits = 0; // written from the reporting thread; read between cases only

struct Totals {
    std::map<std::string, uint64_t> sum;
    std::map<std::string, uint64_t> mx;
    std::map<std::string, double> mxf;
    uint64_t cases = 0, violations = 0;
};

inline Totals &totals() {
    static Totals t;
    return t;
}

struct Ctx {
    const Args &args;
    const Config &cfg;
    size_t cfg_idx;
    uint64_t case_idx;
    Rng rng;
    FILE *out;
    const Spec *given = nullptr;          ///< explicit case, if any
    std::function<Spec()> dumper;         ///< produces the witness spec of the current case
    uint64_t input_hash = 0;
    bool nontrivial = false;
    int violations_in_case = 0;
    std::string traits;                   ///< free-text tags of this case (family names, etc.)

    Ctx(const Args &a, const Config &c, size_t ci, uint64_t k, FILE *o)
        : args(a), cfg(c), cfg_idx(ci), case_idx(k), rng(mix(mix(a.seed, hash_str(c.name)), k)), out(o) {}

    bool prop(const char *p) const { return args.prop == p; }
    bool thorough() const { return args.tier == "thorough"; }

    void count(const std::string &k, uint64_t d = 1) { totals().sum[k] += d; }
    void maxc(const std::string &k, uint64_t v) {
        auto &m = totals().mx[k];
        if (v > m)
            m = v;
    }
    void maxf(const std::string &k, double v) {
        auto it = totals().mxf.find(k);
        if (it == totals().mxf.end() || v > it->second)
            totals().mxf[k] = v;
    }

    /// Report a violation of the property under check. `kind` is a stable identifier of the failed oracle clause,
    /// `detail` an already-built JSON object with observed / expected values, `region` names a known-finding region
    /// predicate the case falls in ("" if none).
    void violation(const std::string &kind, const J &detail, const std::string &region = "") {
        ++violations_in_case;
        ++totals().violations;
        if (violations_in_case > 3)
            return; // keep files small: at most 3 witnesses per case
        J j;
        j.str("t", "violation").str("prop", args.prop).str("config", cfg.name).num("case", case_idx).num("seed", args.seed);
        j.str("kind", kind).str("region", region).str("traits", traits).raw("detail", detail.done());
        if (dumper) {
            Spec s = dumper();
            if (s.tokens() <= 300000)
                j.raw("spec", s.json());
            else
                j.str("spec_omitted", "too large; regenerate with --config/--case/--seed");
        }
        fprintf(out, "%s\n", j.done().c_str());
        fflush(out);
    }

    /// With --x-predump 1 the witness spec is written *before* the risky part of the case runs, so that the driver can
    /// recover the input of a case that crashes the worker.
    void predump() {
        if (args.geti("predump", 0) && dumper) {
            Spec s = dumper();
            J j;
            j.str("t", "predump").str("config", cfg.name).num("case", case_idx);
            if (s.tokens() <= 300000)
                j.raw("spec", s.json());
            fprintf(out, "%s\n", j.done().c_str());
            fflush(out);
        }
    }

    void sample(const J &extra) {
        J j;
        j.str("t", "sample").str("config", cfg.name).num("case", case_idx).str("traits", traits).raw("info", extra.done());
        if (dumper) {
            Spec s = dumper();
            if (s.tokens() <= 400)
                j.raw("spec", s.json());
            else {
                // abbreviate long lists
                J a;
                for (auto &kv : s.f)
                    a.arr(kv.first, kv.second, 40);
                j.raw("spec_head", a.done());
            }
        }
        fprintf(out, "%s\n", j.done().c_str());
    }
    bool want_sample() const { return case_idx < (uint64_t) args.samples && args.shard == (cfg_idx % args.nshards); }
};

inline Args parse_args(int argc, char **argv) {
    Args a;
    for (int i = 1; i < argc; ++i) {
        std::string k = argv[i];
        auto val = [&]() -> std::string {
            if (i + 1 >= argc) {
                fprintf(stderr, "missing value for %s\n", k.c_str());
                exit(2);
            }
            return argv[++i];
        };
        if (k == "--prop") a.prop = val();
        else if (k == "--tier") a.tier = val();
        else if (k == "--seed") a.seed = strtoull(val().c_str(), nullptr, 10);
        else if (k == "--shard") a.shard = strtoull(val().c_str(), nullptr, 10);
        else if (k == "--nshards") a.nshards = strtoull(val().c_str(), nullptr, 10);
        else if (k == "--cases") a.cases = strtoull(val().c_str(), nullptr, 10);
        else if (k == "--scale") a.scale = strtoull(val().c_str(), nullptr, 10);
        else if (k == "--out") a.out = val();
        else if (k == "--config") a.only_config = val();
        else if (k == "--configs") a.config_filter = val();
        else if (k == "--exclude") a.exclude_filter = val();
        else if (k == "--case") a.only_case = atoll(val().c_str());
        else if (k == "--resume") {
            a.resume_cfg = atoll(val().c_str());
            a.resume_case = atoll(val().c_str());
        } else if (k == "--spec") a.spec_path = val();
        else if (k == "--samples") a.samples = atoi(val().c_str());
        else if (k == "--list") a.list = true;
        else if (k == "--case-timeout") a.case_timeout = unsigned(atoi(val().c_str()));
        else if (k.rfind("--x-", 0) == 0) a.extra[k.substr(4)] = val();
        else {
            fprintf(stderr, "unknown argument %s\n", k.c_str());
            exit(2);
        }
    }
    return a;
}

inline bool match_filter(const std::string &name, const std::string &filter) {
    if (filter.empty())
        return true;
    std::istringstream is(filter);
    std::string tok;
    while (std::getline(is, tok, ','))
        if (!tok.empty() && name.find(tok) != std::string::npos)
            return true;
    return false;
}

inline void run_one(Ctx &c) {
    int asan_before = g_asan_hits, tsan_before = g_tsan_hits;
    // The witness producer captures locals of the case function: it must not be called once that function has returned or
    // been unwound. Violations raised here carry no spec; the driver recovers the input by re-running the case with
    // --x-predump 1 (the case is a pure function of seed, configuration and case index).
    try {
        c.cfg.fn(c);
        c.dumper = nullptr;
    } catch (const std::exception &e) {
        c.dumper = nullptr;
        c.violation("unexpected_exception", J().str("what", e.what()).str("type", typeid(e).name()));
    } catch (...) {
        c.dumper = nullptr;
        c.violation("unexpected_exception", J().str("what", "non-std exception"));
    }
    if (g_asan_hits != asan_before)
        c.violation("asan_report", J().num("reports", g_asan_hits - asan_before));
    if (g_tsan_hits != tsan_before)
        c.violation("tsan_report", J().num("reports", g_tsan_hits - tsan_before).str("where", "construction / queries of this case (see the report in the replay file)"));
}

/// Engines call this from main() after their configs have been registered by static initialisers.
inline int vf_main(int argc, char **argv, const char *engine) {
    Args a = parse_args(argc, argv);
    auto &reg = registry();
    std::stable_sort(reg.begin(), reg.end(), [](const Config &x, const Config &y) { return x.name < y.name; });
    if (a.list) {
        for (auto &c : reg)
            printf("%s\n", c.name.c_str());
        return 0;
    }
    if (a.case_timeout) // a case that makes no progress ends the worker; the driver re-runs it alone before calling it a hang
        signal(SIGALRM, [](int) { _exit(124); });
    FILE *out = a.out.empty() ? stdout : fopen(a.out.c_str(), "a");
    if (!out) {
        fprintf(stderr, "cannot open %s\n", a.out.c_str());
        return 2;
    }
    setvbuf(out, nullptr, _IOFBF, 1 << 16);

    Spec given;
    bool have_spec = !a.spec_path.empty();
    if (have_spec) {
        given = Spec::load(a.spec_path);
        if (a.only_config.empty())
            a.only_config = given.one_str("config");
    }

    uint64_t global = 0;
    size_t ran_cfgs = 0;
    const bool stderr_markers = getenv("VF_STDERR_MARKERS") != nullptr;
    for (size_t ci = 0; ci < reg.size(); ++ci) {
        auto &cfg = reg[ci];
        if (!a.only_config.empty() && cfg.name != a.only_config)
            continue;
        if (!match_filter(cfg.name, a.config_filter))
            continue;
        if (!a.exclude_filter.empty() && match_filter(cfg.name, a.exclude_filter))
            continue;
        ++ran_cfgs;
        uint64_t ncases = have_spec ? 1 : std::max<uint64_t>(1, uint64_t(std::ceil(a.cases * cfg.weight)));
        for (uint64_t k = 0; k < ncases; ++k, ++global) {
            if (a.only_case >= 0 && (long long) k != a.only_case)
                continue;
            if (a.only_case < 0 && !have_spec && global % a.nshards != a.shard)
                continue;
            if (a.resume_cfg >= 0 &&
                ((long long) ci < a.resume_cfg || ((long long) ci == a.resume_cfg && (long long) k <= a.resume_case)))
                continue;
            uint64_t case_id = have_spec ? given.one<uint64_t>("case", 0) : k;
            Ctx c(a, cfg, ci, case_id, out);
            if (have_spec)
                c.given = &given;
            fprintf(out, "B %zu %" PRIu64 "\n", ci, k);
            fflush(out);
            if (stderr_markers) fprintf(stderr, "VF-CASE %zu %" PRIu64 "\n", ci, k); // lets the driver attribute sanitizer reports in the log
            if (a.case_timeout) alarm(a.case_timeout);
            run_one(c);
            if (a.case_timeout) alarm(0);
            ++totals().cases;
            fprintf(out, "E %zu %" PRIu64 " %016" PRIx64 " %d %d\n", ci, k, c.input_hash, c.nontrivial ? 1 : 0,
                    c.violations_in_case);
        }
    }
    // summary
    J s;
    s.str("t", "summary").str("engine", engine).num("cases", totals().cases).num("violations", totals().violations);
    s.num("configs_run", ran_cfgs).num("asan_hits", g_asan_hits);
    J sum, mx, mxf;
    for (auto &kv : totals().sum)
        sum.num(kv.first, kv.second);
    for (auto &kv : totals().mx)
        mx.num(kv.first, kv.second);
    for (auto &kv : totals().mxf)
        mxf.num(kv.first, kv.second);
    s.raw("sum", sum.done()).raw("max", mx.done()).raw("maxf", mxf.done());
    fprintf(out, "%s\n", s.done().c_str());
    fflush(out);
    if (out != stdout)
        fclose(out);
    return 0;
}

} // namespace vf

// ASan calls this (weak in the runtime) before printing each report; in recover mode the process continues and the
// case loop turns the counter change into an `asan_report` violation attributed to the running case.
#if defined(__SANITIZE_THREAD__)
#define VF_TSAN 1
#elif defined(__has_feature)
#if __has_feature(thread_sanitizer)
#define VF_TSAN 1
#endif
#endif
#ifdef VF_TSAN
// ThreadSanitizer calls this (weak in the runtime) for every report; counted like ASan reports (kind `tsan_report`)
extern "C" __attribute__((weak, used)) void __tsan_on_report(void *) { ++vf::g_tsan_hits; }
#endif
#if defined(__SANITIZE_ADDRESS__)
extern "C" __attribute__((weak, used)) void __asan_on_error() {
    ++vf::g_asan_hits;
    fprintf(stderr, "ASAN-WITNESS hit=%d\n", vf::g_asan_hits);
}
#endif

#define VF_CAT2(a, b) a##b
#define VF_CAT(a, b) VF_CAT2(a, b)
#define VF_REGISTER(name, fn, weight) static ::vf::Registrar VF_CAT(vf_reg_, __COUNTER__)(name, fn, weight)

// Engine `mapped`: MappedPGMIndex multiset queries (C11), equivalence of the three construction paths (C12), memory
// monitor incl. a guard page behind every mapping (C17).
#pragma once

#include <sys/mman.h>
#include <sys/stat.h>
#include <fcntl.h>
#include <unistd.h>
#include <cstddef>

// Guard-page shim: every mapping made by the library is placed in front of a PROT_NONE page, so that reading one
// element past a file that ends on a page boundary faults. Injected by macro: no change to the library.
namespace vf_shim {
inline size_t page() { static size_t p = size_t(sysconf(_SC_PAGESIZE)); return p; }
inline unsigned long &maps() { static unsigned long m = 0; return m; }
inline void *guarded_mmap(void *, size_t len, int prot, int flags, int fd, off_t off) {
    size_t pg = page(), span = (len + pg - 1) / pg * pg;
    if (span == 0) span = pg;
    char *base = (char *) ::mmap(nullptr, span + pg, PROT_NONE, MAP_PRIVATE | MAP_ANONYMOUS, -1, 0);
    if (base == MAP_FAILED) return MAP_FAILED;
    void *p = ::mmap(base, len, prot, flags | MAP_FIXED, fd, off);
    if (p == MAP_FAILED) {
        ::munmap(base, span + pg);
        return MAP_FAILED;
    }
    ++maps();
    ::close(fd); // the library never closes the descriptor it maps (a leak outside every property): keep the worker alive
    return p;
}
inline int guarded_munmap(void *p, size_t len) {
    size_t pg = page(), span = (len + pg - 1) / pg * pg;
    if (span == 0) span = pg;
    return ::munmap(p, span + pg);
}
} // namespace vf_shim
#define mmap vf_shim::guarded_mmap
#define munmap vf_shim::guarded_munmap
#include "pgm/pgm_index.hpp"
#include "pgm/pgm_index_variants.hpp"
#undef mmap
#undef munmap

#include "vf_gen.hpp"
#include <deque>
#include <omp.h>
#include <fstream>
#include <memory>

namespace vf {

inline std::string slurp(const std::string &f) {
    std::ifstream in(f, std::ios::binary);
    return std::string(std::istreambuf_iterator<char>(in), {});
}

struct FileStamp {
    std::string bytes;
    off_t size = 0;
    struct timespec mtime {};
    static FileStamp of(const std::string &f) {
        FileStamp s;
        s.bytes = slurp(f);
        struct stat st {};
        if (stat(f.c_str(), &st) == 0) {
            s.size = st.st_size;
            s.mtime = st.st_mtim;
        }
        return s;
    }
    bool same(const FileStamp &o) const {
        return bytes == o.bytes && size == o.size && mtime.tv_sec == o.mtime.tv_sec && mtime.tv_nsec == o.mtime.tv_nsec;
    }
};

template<class K, size_t Eps, size_t EpsRec, class Floating = float>
struct MappedProbe : pgm::MappedPGMIndex<K, Eps, EpsRec, Floating> {
    using B = pgm::MappedPGMIndex<K, Eps, EpsRec, Floating>;
    using B::B;
    size_t hdr_n() const { return this->n; }
    K hdr_first_key() const { return this->first_key; }
    const std::vector<size_t> &hdr_offsets() const { return this->levels_offsets; }
    std::string hdr_segments() const {
        return std::string((const char *) this->segments.data(), this->segments.size() * sizeof(this->segments[0]));
    }
};

template<class K>
std::vector<K> gen_mapped_keys(Rng &r, size_t eps, size_t maxn, std::string &family, size_t force_n = 0) {
    if (r.chance(1, 2)) return gen_int_keys<K>(r, eps, maxn, family, force_n);
    // runs of equal keys of chosen lengths: 1,2,3, 2^j-1, 2^j, 2^j+1 (the gallop doubles), eps, 2eps+2, 2eps+3, 10eps
    using D = UDom<K>;
    family = "gallop_runs";
    size_t n = force_n ? force_n : pick_n(r, maxn);
    std::vector<uint64_t> u;
    uint64_t R = D::R;
    uint64_t cur = 0;
    switch (r.below(4)) { // first key negative / zero / positive
        case 0: cur = 0; break;
        case 1: cur = D::to_u(K(0)); break;
        case 2: cur = D::to_u(K(0)) > 50 ? D::to_u(K(0)) - r.below(50) : 0; break;
        default: cur = r.below(R / 2);
    }
    bool single = r.chance(1, 12);
    while (u.size() < n) {
        int j = 1 + int(r.below(10));
        size_t L = r.pick<size_t>({1, 1, 2, 3, (size_t(1) << j) - 1, size_t(1) << j, (size_t(1) << j) + 1, eps, 2 * eps + 2, 2 * eps + 3, 10 * eps});
        if (single) L = n;
        for (size_t k = 0; k < L && u.size() < n; ++k) u.push_back(cur);
        cur = sat_add(cur, r.pick<uint64_t>({1, 1, 2, 5, 1 + r.below(1000)}), R);
    }
    std::vector<K> out;
    for (auto x : u) out.push_back(D::to_key(std::min(x, R)));
    std::sort(out.begin(), out.end());
    return out;
}

template<class K, size_t Eps, size_t EpsRec, class Floating = float>
void mapped_case(Ctx &c) {
    using M = MappedProbe<K, Eps, EpsRec, Floating>;
    std::vector<K> d;
    std::string family;
    std::vector<int> order; // construction order, see below
    bool align = false;
    int big_threads = 0; // > 0: omp_set_num_threads for this case (cases with >= 2^15 keys)
    if (c.given) {
        d = c.given->vec<K>("keys");
        family = c.given->one_str("family", "spec");
        order = c.given->vec<int>("order");
        big_threads = c.given->one<int>("threads", 0);
    } else {
        size_t maxn = c.thorough() ? (c.case_idx % 40 == 39 ? (size_t(1) << 18) : 6000) : 3000;
        size_t force_n = 0;
        if (c.rng.chance(1, 7)) {
            // "round" element counts: block-, page- and buffer-size multiples and their neighbours (I/O is done in blocks)
            force_n = c.rng.pick<size_t>({256, 512, 1024, 2048, 4096, 4096, 8192, 8192, 12288, 16384}) + c.rng.pick<size_t>({0, 0, 0, 1}) - c.rng.pick<size_t>({0, 0, 0, 1});
            if (c.thorough() && c.rng.chance(1, 6)) force_n = c.rng.pick<size_t>({32768, 65536, 131072});
        }
        d = gen_mapped_keys<K>(c.rng, Eps, maxn, family, force_n);
        if (force_n) family += "+round_n";
        align = !force_n && c.rng.chance(1, 3);
        if (c.rng.chance(1, 25)) {
            // >= 2^15 keys: the index is built by the chunked, multi-threaded builder. n is arbitrary modulo the chunk count,
            // the last few keys lie far off the trend of the rest, the OpenMP thread count is chosen per case, and a quarter of
            // these cases create the container through ONE of the two paths only (then reopen it): a process that has so far
            // built large containers through one path, under another thread count, is part of "every history".
            size_t n = (size_t(1) << 15) + c.rng.below(6000);
            d = gen_mapped_keys<K>(c.rng, Eps, n, family, n);
            using D = UDom<K>;
            size_t tail = 1 + c.rng.below(25);
            uint64_t top = D::R - c.rng.below(1000), prev = D::to_u(d[n - tail - 1]);
            if (top > prev && top - prev > 4 * tail) { // (prev + 4 * tail may wrap: the body often saturates at max-1)
                uint64_t step = std::max<uint64_t>(1, std::min<uint64_t>((top - prev) / (4 * tail), 1 + c.rng.below(1000)));
                for (size_t j = 0; j < tail; ++j) d[n - tail + j] = D::to_key(top - (tail - 1 - j) * step);
            }
            family = "big_far_tail";
            align = false;
            big_threads = 1 + int(c.rng.below(20));
            switch (c.rng.below(8)) {
                case 0: order = {0, 2, 4}; break; // range path only
                case 1: order = {1, 3}; break;    // raw-file path only
                default: break;
            }
        }
    }
    const std::string tag = std::to_string(getpid());
    const std::string fa = "mapped." + tag + ".A", fb = "mapped." + tag + ".B", raw = "mapped." + tag + ".raw";
    struct Cleanup {
        std::vector<std::string> f;
        ~Cleanup() { for (auto &x : f) unlink(x.c_str()); }
    } cleanup{{fa, fb, raw}};

    if (align && !d.empty()) {
        // pad the data so that the output file ends exactly on a page boundary: the guard page then follows the last key
        for (int round = 0; round < 4; ++round) {
            size_t fbz;
            {
                M probe(d.begin(), d.end(), fa);
                fbz = probe.file_size_in_bytes();
            }
            size_t pg = vf_shim::page(), rem = fbz % pg;
            if (rem == 0) break;
            size_t add = (pg - rem) / sizeof(K);
            if ((pg - rem) % sizeof(K) != 0) break;
            K last = d.back();
            for (size_t i = 0; i < add; ++i) d.push_back(last);
        }
    }
    if (order.empty()) {
        // actions: 0 = create from range -> A, 1 = create from raw file -> B, 2 = reopen A, 3 = reopen B, 4 = reopen A again
        std::vector<int> acts{0, 1, 2, 3, 4};
        for (int tries = 0; tries < 100; ++tries) {
            for (size_t i = acts.size(); i > 1; --i) std::swap(acts[i - 1], acts[c.rng.below(i)]);
            auto pos = [&](int a) { return std::find(acts.begin(), acts.end(), a) - acts.begin(); };
            if (pos(0) < pos(2) && pos(2) < pos(4) && pos(1) < pos(3)) break;
            acts = {0, 1, 2, 3, 4};
        }
        order = acts;
    }
    int stale_for_dump = 0, src_for_dump = 0;
    c.dumper = [&]() {
        Spec s;
        s.set_one("config", c.cfg.name);
        s.set_one("case", c.case_idx);
        s.set_one("family", family);
        s.set_vec("order", order);
        s.set_one("threads", big_threads);
        s.set_one("stale", stale_for_dump);
        s.set_one("source", src_for_dump);
        s.set_vec("keys", d);
        return s;
    };
    c.traits = family;
    Hasher h;
    h.add_vec(d);
    h.add_vec(order);
    c.input_hash = h.h;
    const size_t n = d.size();
    if (n == 0) return;
    const int src_kind = c.given ? c.given->one<int>("source", 0) : int(mix(c.input_hash, 0x5ce) % 4);
    src_for_dump = src_kind;
    c.predump();
    {
        std::ofstream o(raw, std::ios::binary);
        o.write((const char *) d.data(), std::streamsize(n * sizeof(K)));
    }
    const bool c11 = c.prop("C11"), c12 = c.prop("C12");
    // in half of the cases the output names already exist and hold something longer (an older, larger container): a
    // constructor that does not replace the file leaves a stale tail behind
    int stale = c.given ? c.given->one<int>("stale", 0) : int(c.rng.below(6));
    auto junk = [&](const std::string &f, size_t bytes) {
        std::ofstream o(f, std::ios::binary);
        std::string block(4096, char(0x5a));
        for (size_t w = 0; w < bytes; w += block.size()) o.write(block.data(), std::streamsize(std::min(block.size(), bytes - w)));
    };
    size_t expect_bytes = n * sizeof(K) + 4096;
    if (stale == 1 || stale == 3) junk(fa, expect_bytes * 2 + 12345);
    if (stale == 2 || stale == 3) junk(fb, expect_bytes * 3 + 777);
    if (stale >= 1 && stale <= 3) c.count("cases_output_file_preexisting_longer");
    stale_for_dump = stale;

    // ---- construct in the chosen order, all objects stay alive
    if (big_threads > 0) {
        omp_set_num_threads(big_threads);
        c.count("cases_built_by_the_chunked_builder");
        c.count("chunked_cases_with_" + std::to_string(std::min(big_threads, 20)) + "_threads");
        if (order.size() < 5) c.count("chunked_cases_through_one_path_only");
    }
    std::unique_ptr<M> obj[5];
    FileStamp stampA, stampB;
    static const char *names[] = {"from_range", "from_raw_file", "reopen_A", "reopen_B", "reopen_A_again"};
    for (int a : order) {
        switch (a) {
            case 0:
                // the range constructor takes any random-access iterators: a vector, a deque (not contiguous beyond one
                // node), reverse iterators over a descending array (contiguous, but backwards)
                if (src_kind == 2) {
                    std::deque<K> dq(d.begin(), d.end());
                    obj[0].reset(new M(dq.begin(), dq.end(), fa));
                    c.count("range_built_from_deque");
                } else if (src_kind == 3) {
                    std::vector<K> rv(d.rbegin(), d.rend());
                    obj[0].reset(new M(rv.rbegin(), rv.rend(), fa));
                    c.count("range_built_from_reverse_iterators");
                } else {
                    obj[0].reset(new M(d.begin(), d.end(), fa));
                    c.count("range_built_from_vector");
                }
                stampA = FileStamp::of(fa);
                break;
            case 1: obj[1].reset(new M(raw, fb)); stampB = FileStamp::of(fb); break;
            case 2: case 4: {
                obj[a].reset(new M(fa));
                if (c12 && !FileStamp::of(fa).same(stampA))
                    c.violation("reopen_altered_file", J().str("which", names[a]).num("n", n));
                break;
            }
            case 3: {
                obj[3].reset(new M(fb));
                if (c12 && !FileStamp::of(fb).same(stampB))
                    c.violation("reopen_altered_file", J().str("which", names[a]).num("n", n));
                break;
            }
        }
    }
    size_t page_aligned = obj[0] && obj[0]->file_size_in_bytes() % vf_shim::page() == 0;
    if (c12) {
        if (obj[0] && stampA.bytes.size() != obj[0]->file_size_in_bytes())
            c.violation("files_differ", J().str("which", "file A is not as long as file_size_in_bytes() says").num("size_A", stampA.bytes.size())
                                            .num("file_size_in_bytes", obj[0]->file_size_in_bytes()).num("n", n).num("preexisting", stale));
        if (obj[0] && obj[1] && stampA.bytes != stampB.bytes) {
            size_t i = 0;
            while (i < std::min(stampA.bytes.size(), stampB.bytes.size()) && stampA.bytes[i] == stampB.bytes[i]) ++i;
            c.violation("files_differ", J().num("size_A", stampA.bytes.size()).num("size_B", stampB.bytes.size()).num("first_difference_at_byte", i)
                                            .num("n", n).num("first_key", d.front()));
        }
        for (int i = 1; i < 5; ++i) {
            if (!obj[i] || !obj[0]) continue;
            if (obj[i]->hdr_n() != obj[0]->hdr_n() || obj[i]->hdr_first_key() != obj[0]->hdr_first_key() ||
                obj[i]->hdr_offsets() != obj[0]->hdr_offsets() || obj[i]->hdr_segments() != obj[0]->hdr_segments() ||
                obj[i]->size() != obj[0]->size() || obj[i]->file_size_in_bytes() != obj[0]->file_size_in_bytes())
                c.violation("header_fields_differ", J().str("which", names[i]).num("n", obj[i]->hdr_n()).num("n_ref", obj[0]->hdr_n())
                                                        .num("first_key", obj[i]->hdr_first_key()).num("first_key_ref", obj[0]->hdr_first_key())
                                                        .num("segments_bytes", obj[i]->hdr_segments().size()).num("segments_bytes_ref", obj[0]->hdr_segments().size()));
        }
    }

    // ---- queries
    auto qs = gen_queries(d, c.rng, 1500);
    if (big_threads > 0) // the top end of a chunk-built container: every one of the last keys and its neighbours
        for (size_t i = n > 40 ? n - 40 : 0; i < n; ++i) {
            qs.push_back(d[i]);
            if (d[i] < key_maxvalid<K>()) qs.push_back(key_succ(d[i]));
            if (d[i] > KT<K>::lowest()) qs.push_back(key_pred(d[i]));
        }
    uint64_t judged = 0, absent = 0, long_runs = 0, runs_to_end = 0;
    {
        size_t i = 0;
        while (i < n) {
            size_t j = i;
            while (j < n && d[j] == d[i]) ++j;
            if (j - i > 2 * Eps + 2) ++long_runs;
            if (j == n && j - i > 1) ++runs_to_end;
            i = j;
        }
    }
    for (int oi = 0; oi < 5; ++oi) {
        if (!obj[oi]) continue;
        if (c11 && oi >= 2 && c.case_idx % 3 != 0) continue; // C11: mostly the two constructed objects
        M &mm = *obj[oi];
        if (mm.size() != n || size_t(mm.end() - mm.begin()) != n || !std::equal(d.begin(), d.end(), mm.begin())) {
            c.violation(c12 ? "sequence_differs" : "exposed_sequence_differs", J().str("which", names[oi]).num("size", mm.size()).num("n", n));
            continue;
        }
        for (const K &q : qs) {
            size_t elb = std::lower_bound(d.begin(), d.end(), q) - d.begin(), eub = std::upper_bound(d.begin(), d.end(), q) - d.begin();
            size_t glb = mm.lower_bound(q) - mm.begin(), gub = mm.upper_bound(q) - mm.begin();
            size_t ec = eub - elb, gc = mm.count(q);
            bool eb = ec > 0, gb = mm.contains(q);
            ++judged;
            absent += !eb;
            if (elb != glb || eub != gub || ec != gc || eb != gb) {
                const char *kind = elb != glb ? "lower_bound_mismatch" : eub != gub ? "upper_bound_mismatch" : ec != gc ? "count_mismatch" : "contains_mismatch";
                if (c12) kind = "answers_differ_between_objects";
                c.violation(kind, J().str("which", names[oi]).num("q", q).num("lower_bound", glb).num("expected_lower_bound", elb)
                                      .num("upper_bound", gub).num("expected_upper_bound", eub).num("count", gc).num("expected_count", ec)
                                      .boolean("contains", gb).num("n", n).num("eps", Eps));
                break;
            }
        }
    }
    c.count("queries", judged);
    c.count("absent_queries", absent);
    c.count("runs_longer_than_range", long_runs);
    c.count("runs_reaching_end", runs_to_end);
    c.count("page_aligned_files", page_aligned);
    c.count("mappings_guarded", vf_shim::maps());
    vf_shim::maps() = 0;
    c.count("family_" + family.substr(0, family.find('+')));
    if (n % 4096 == 0) c.count("n_multiple_of_4096");
    if ((n & (n - 1)) == 0) c.count("n_power_of_two");
    c.maxc("max_n", n);
    size_t segs = obj[0] ? obj[0]->segments_count() : 0;
    c.nontrivial = c12 ? (d.front() != K(0) && segs >= 2) : (long_runs >= 1 && absent >= 1);
    if (c.prop("C17")) c.nontrivial = true;
    if (c.want_sample()) c.sample(J().num("n", n).num("segments", segs).num("page_aligned", page_aligned));
}

#define VF_MAPPED(K, E, ER)                                                                                            \
    VF_REGISTER(std::string("mapped/") + ::vf::KT<K>::name() + ",e" #E ",er" #ER, (&::vf::mapped_case<K, E, ER>), 1.0)
#define VF_MAPPED_F(K, E, ER, F)                                                                                       \
    VF_REGISTER(std::string("mapped/") + ::vf::KT<K>::name() + ",e" #E ",er" #ER "," #F, (&::vf::mapped_case<K, E, ER, F>), 1.0)

} // namespace vf

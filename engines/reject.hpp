// Engine `reject`: inputs that violate exactly one documented precondition, at every position where the violation can
// occur (C20). Oracle: the stated exception category - neither no exception nor a crash - and, for rejected inserts,
// an unchanged container.
#pragma once

#include "pgm/pgm_index.hpp"
#include "pgm/pgm_index_variants.hpp"
#include "pgm/pgm_index_dynamic.hpp"
#include "vf_gen.hpp"
#include <fstream>
#include <map>
#include <array>
#include <memory>
#include <unistd.h>

namespace pgm_verif {
struct DynamicAccess {
    template<class D> static const auto &levels(const D &d) { return d.levels; }
    template<class D> static int used_levels(const D &d) { return d.used_levels; }
};
} // namespace pgm_verif

namespace vf {

enum Outcome { NO_EXCEPTION, INVALID_ARGUMENT, LOGIC_ERROR, OTHER_STD, NON_STD };
static const char *outcome_names[] = {"no_exception", "std::invalid_argument", "std::logic_error", "other std::exception", "non-std exception"};

template<class F> Outcome outcome_of(F f, std::string *what = nullptr) {
    try {
        f();
    } catch (const std::invalid_argument &e) {
        if (what) *what = e.what();
        return INVALID_ARGUMENT;
    } catch (const std::logic_error &e) {
        if (what) *what = e.what();
        return LOGIC_ERROR;
    } catch (const std::exception &e) {
        if (what) *what = e.what();
        return OTHER_STD;
    } catch (...) {
        return NON_STD;
    }
    return NO_EXCEPTION;
}

inline void expect(Ctx &c, Outcome got, Outcome want, const char *kind, const J &detail, bool any_exception_ok = false) {
    c.count("rejections_checked");
    bool ok = any_exception_ok ? got != NO_EXCEPTION : got == want;
    if (!ok) {
        J d = detail;
        d.str("observed", outcome_names[got]).str("expected", any_exception_ok ? "any exception" : outcome_names[want]);
        c.violation(kind, d);
    }
}

// ------------------------------------------------------------------------------------------------ reserved key
/// valid sorted data of length L (never containing the reserved value), then 1..3 copies of the reserved value
template<class K> std::vector<K> reserved_data(Ctx &c, size_t L, size_t copies) {
    std::string fam;
    std::vector<K> d;
    if (L > 0) d = gen_keys<K>(c.rng, 2, L, fam, L);
    for (size_t i = 0; i < copies; ++i) d.push_back(KT<K>::reserved());
    return d;
}

/// Lengths 0..40 exhaustively; every 8th case a large array (>= 2^15 keys: the chunked, multi-threaded builder runs).
inline size_t reserved_len(Ctx &c) {
    if (c.case_idx % 8 == 7) return c.rng.pick<size_t>({32767, 32768, 32769, 40000, 65536, 100003});
    return c.case_idx % 41;
}

template<class K, class Idx> void reserved_static_case(Ctx &c) {
    size_t L = reserved_len(c), copies = 1 + (c.case_idx / 41) % 3;
    if (L >= 32767) c.count("large_arrays_multi_threaded");
    auto d = reserved_data<K>(c, L, copies);
    c.dumper = [&]() { Spec s; s.set_one("config", c.cfg.name); s.set_one("case", c.case_idx); s.set_vec("keys", d); return s; };
    if (c.given) d = c.given->vec<K>("keys");
    Hasher h; h.add_vec(d); c.input_hash = h.h;
    c.traits = "reserved_key,len=" + std::to_string(L) + ",copies=" + std::to_string(copies);
    c.predump();
    std::string what;
    Outcome o = outcome_of([&] { Idx x(d.begin(), d.end()); (void) x; }, &what);
    expect(c, o, INVALID_ARGUMENT, "reserved_key_not_rejected", J().num("valid_keys", L).num("reserved_copies", copies).str("what", what));
    // the vector-taking constructor as well, where the class has one
    if constexpr (std::is_constructible_v<Idx, const std::vector<K> &>) {
        Outcome o2 = outcome_of([&] { Idx x(d); (void) x; });
        expect(c, o2, INVALID_ARGUMENT, "reserved_key_not_rejected", J().num("valid_keys", L).num("reserved_copies", copies).str("ctor", "vector"));
    }
    c.nontrivial = true;
    if (c.want_sample()) c.sample(J().num("valid_keys", L).num("reserved_copies", copies));
}

template<class K, size_t Eps, size_t EpsRec> void reserved_mapped_case(Ctx &c) {
    using M = pgm::MappedPGMIndex<K, Eps, EpsRec>;
    size_t L = reserved_len(c), copies = 1 + (c.case_idx / 41) % 3;
    auto d = reserved_data<K>(c, L, copies);
    Hasher h; h.add_vec(d); c.input_hash = h.h;
    c.traits = "reserved_key_mapped,len=" + std::to_string(L);
    c.dumper = [&]() { Spec s; s.set_one("config", c.cfg.name); s.set_one("case", c.case_idx); s.set_vec("keys", d); return s; };
    c.predump();
    std::string tag = std::to_string(getpid());
    std::string f1 = "reject." + tag + ".A", f2 = "reject." + tag + ".B", raw = "reject." + tag + ".raw";
    Outcome o = outcome_of([&] { M x(d.begin(), d.end(), f1); (void) x; });
    expect(c, o, INVALID_ARGUMENT, "reserved_key_not_rejected", J().num("valid_keys", L).str("ctor", "range"));
    {
        std::ofstream out(raw, std::ios::binary);
        out.write((const char *) d.data(), std::streamsize(d.size() * sizeof(K)));
    }
    Outcome o2 = outcome_of([&] { M x(raw, f2); (void) x; });
    expect(c, o2, INVALID_ARGUMENT, "reserved_key_not_rejected", J().num("valid_keys", L).str("ctor", "raw_file"));
    unlink(f1.c_str()); unlink(f2.c_str()); unlink(raw.c_str());
    c.nontrivial = true;
}

// ------------------------------------------------------------------------------------------------ dynamic container
template<class Dyn> std::vector<std::pair<uint64_t, uint64_t>> dyn_snapshot(const Dyn &x, uint64_t &state_hash) {
    std::vector<std::pair<uint64_t, uint64_t>> walk;
    size_t steps = 0;
    for (auto it = x.begin(); !(it == x.end()) && steps < 100000; ++it, ++steps) walk.emplace_back(uint64_t(it->first), uint64_t(it->second));
    Hasher h;
    h.add(uint64_t(pgm_verif::DynamicAccess::used_levels(x)));
    for (auto &L : pgm_verif::DynamicAccess::levels(x)) {
        h.add(L.size());
        for (auto &it : L) { h.add(uint64_t(it.first)); h.add(uint64_t(it.second)); }
    }
    state_hash = h.h;
    return walk;
}

template<class K, class V, class PGMType> void dyn_reject_case(Ctx &c) {
    using Dyn = pgm::DynamicPGMIndex<K, V, PGMType>;
    const V tomb = std::numeric_limits<V>::max();
    size_t sub = c.case_idx % 5;
    c.input_hash = mix(c.case_idx, hash_str(c.cfg.name));
    auto &r = c.rng;
    auto sorted_pairs = [&](size_t L) {
        std::vector<std::pair<K, V>> v;
        K k = K(r.below(50));
        for (size_t i = 0; i < L; ++i) {
            v.emplace_back(k, V(r.below(1000)));
            k = K(k + K(r.below(3))); // repeated keys allowed
        }
        return v;
    };
    int base = r.pick<int>({2, 4, 8, 16}), bl = int(r.below(3)), il = bl ? bl + 1 : 0;
    switch (sub) {
        case 0: { // unsorted pair at every position of a bulk-load range of length L
            if constexpr (sizeof(K) >= 4) {
                if ((c.case_idx / 5) % 10 == 9) {
                    // a long range (several blocks of any plausible block size) with ONE descent, placed at the positions a
                    // block-wise or chunk-wise order check would look at last: around every multiple of 4096 and of every
                    // power of two, at both ends, and at a few random places
                    size_t L = 70000 + r.below(c.thorough() ? 400000 : 140000);
                    c.traits = "unsorted_bulk_long,len=" + std::to_string(L);
                    std::vector<std::pair<K, V>> v(L);
                    K k = K(r.below(50));
                    for (size_t i = 0; i < L; ++i) { v[i] = {k, V(r.below(1000))}; k = K(k + K(1 + r.below(3))); }
                    std::vector<size_t> at{0, 1, L - 2, L - 3, r.below(L - 1), r.below(L - 1), r.below(L - 1)};
                    for (size_t b = 256; b < L; b *= 2) { at.push_back(b - 1); at.push_back(b); at.push_back(b - 2); }
                    for (size_t m = 4096; m + 1 < L; m += 4096 * (1 + r.below(4))) { at.push_back(m - 1); if (r.chance(1, 4)) at.push_back(m); }
                    for (size_t m = 65536; m + 1 < L; m += 65536) { at.push_back(m - 1); at.push_back(m); at.push_back(m - 2); }
                    uint64_t tried = 0;
                    for (size_t pos : at) {
                        if (pos + 1 >= L) continue;
                        std::swap(v[pos].first, v[pos + 1].first); // exactly one descent
                        Outcome o = outcome_of([&] { Dyn x(v.begin(), v.end(), uint8_t(base), uint8_t(bl), uint8_t(il)); (void) x; });
                        expect(c, o, INVALID_ARGUMENT, "unsorted_bulk_load_not_rejected", J().num("length", L).num("descent_at", pos));
                        std::swap(v[pos].first, v[pos + 1].first);
                        ++tried;
                    }
                    c.count("long_unsorted_ranges_tried", tried);
                    break;
                }
            }
            size_t L = 2 + (c.case_idx / 5) % 39;
            c.traits = "unsorted_bulk,len=" + std::to_string(L);
            auto v = sorted_pairs(L);
            for (size_t i = 1; i < L; ++i) v[i].first = K(v[i].first + K(i)); // make keys strictly increasing first
            for (size_t pos = 0; pos + 1 < L; ++pos) {
                auto w = v;
                std::swap(w[pos].first, w[pos + 1].first); // exactly one descent
                if (!(w[pos + 1].first < w[pos].first)) continue;
                Outcome o = outcome_of([&] { Dyn x(w.begin(), w.end(), uint8_t(base), uint8_t(bl), uint8_t(il)); (void) x; });
                expect(c, o, INVALID_ARGUMENT, "unsorted_bulk_load_not_rejected", J().num("length", L).num("descent_at", pos));
            }
            break;
        }
        case 1: { // every base >= 3 that is not a power of two
            c.traits = "bad_base";
            for (int b = 3; b <= 255; ++b) {
                if ((b & (b - 1)) == 0) continue;
                Outcome o = outcome_of([&] { Dyn x((uint8_t) b); (void) x; });
                expect(c, o, INVALID_ARGUMENT, "bad_base_not_rejected", J().num("base", b).str("ctor", "empty"));
                auto v = sorted_pairs(5);
                Outcome o2 = outcome_of([&] { Dyn x(v.begin(), v.end(), (uint8_t) b); (void) x; });
                expect(c, o2, INVALID_ARGUMENT, "bad_base_not_rejected", J().num("base", b).str("ctor", "bulk"));
            }
            break;
        }
        case 2: { // the reserved mapped value at every indexed position of a bulk load
            size_t L = 1 + (c.case_idx / 5) % 40;
            c.traits = "tombstone_in_bulk,len=" + std::to_string(L);
            auto v = sorted_pairs(L);
            for (size_t pos = 0; pos < L; ++pos) {
                if (pos > 0 && v[pos].first == v[pos - 1].first) continue; // a later pair of a key group is skipped by design
                auto w = v;
                w[pos].second = tomb;
                Outcome o = outcome_of([&] { Dyn x(w.begin(), w.end(), uint8_t(base), uint8_t(bl), uint8_t(il)); (void) x; });
                expect(c, o, INVALID_ARGUMENT, "reserved_value_in_bulk_load_not_rejected", J().num("length", L).num("position", pos));
            }
            break;
        }
        case 3: { // the reserved mapped value at every step of a history; the container must stay exactly as it was
            c.traits = "tombstone_in_history";
            auto v = sorted_pairs(r.below(30));
            Dyn x(v.begin(), v.end(), uint8_t(base), uint8_t(bl ? bl : 1), uint8_t(il ? il : 2));
            for (size_t o = 0; o < 60; ++o) {
                K k = K(r.below(80));
                if (r.chance(7, 10)) x.insert_or_assign(k, V(r.below(1000)));
                else x.erase(k);
                uint64_t h0, h1;
                auto w0 = dyn_snapshot(x, h0);
                size_t sz0 = x.size();
                K kk = r.chance(1, 2) ? k : K(r.below(80)); // an existing or a new key
                Outcome oc = outcome_of([&] { x.insert_or_assign(kk, tomb); });
                expect(c, oc, INVALID_ARGUMENT, "reserved_value_insert_not_rejected", J().num("step", o).num("key", kk));
                auto w1 = dyn_snapshot(x, h1);
                c.count("state_comparisons");
                if (w0 != w1 || h0 != h1 || x.size() != sz0)
                    c.violation("rejected_insert_changed_container", J().num("step", o).num("key", kk).num("size_before", sz0).num("size_after", x.size())
                                                                         .boolean("walk_equal", w0 == w1).boolean("levels_equal", h0 == h1));
            }
            break;
        }
        default: { // range(lo, hi) with lo > hi
            c.traits = "range_lo_gt_hi";
            auto v = sorted_pairs(r.below(40));
            Dyn x(v.begin(), v.end(), uint8_t(base), uint8_t(bl), uint8_t(il));
            for (int i = 0; i < 20; ++i) x.insert_or_assign(K(r.below(80)), V(r.below(1000)));
            for (int i = 0; i < 40; ++i) {
                K lo = K(1 + r.below(100)), hi = K(r.below(uint64_t(lo)));
                if (i == 0) { lo = std::numeric_limits<K>::max() - 1; hi = std::numeric_limits<K>::lowest(); }
                if (i == 1) { lo = 1; hi = 0; }
                Outcome oc = outcome_of([&] { auto rr = x.range(lo, hi); (void) rr; });
                expect(c, oc, INVALID_ARGUMENT, "range_lo_gt_hi_not_rejected", J().num("lo", lo).num("hi", hi));
            }
        }
    }
    c.nontrivial = true;
    if (c.want_sample()) c.sample(J().str("sub_family", c.traits));
}

// ------------------------------------------------------------------------------------------------ multidimensional
template<uint8_t D, class T, size_t Eps> void md_reject_case(Ctx &c) {
    using Idx = pgm::MultidimensionalPGMIndex<D, T, Eps>;
    using Tup = typename Idx::value_type;
    constexpr size_t fb = std::numeric_limits<T>::digits / D;
    const T maxc = T((T(1) << (fb - 1)) - 1);
    size_t L = 1 + c.case_idx % 20;
    c.traits = "coordinate_too_wide,len=" + std::to_string(L);
    c.input_hash = mix(c.case_idx, hash_str(c.cfg.name));
    auto mk = [&](const std::array<T, D> &p) { Tup t; std::apply([&](auto &...x) { size_t i = 0; ((x = p[i++]), ...); }, t); return t; };
    std::vector<std::array<T, D>> pts(L);
    for (auto &p : pts) for (auto &x : p) x = T(c.rng.below(uint64_t(maxc) + 1));
    for (size_t pos = 0; pos < L; ++pos)
        for (size_t ax = 0; ax < D; ++ax) {
            auto w = pts;
            // smallest too-wide value, a random too-wide value, the largest value of T
            T bad = c.rng.pick<T>({T(maxc + 1), T(T(maxc + 1) + T(c.rng.below(uint64_t(maxc) + 1))), std::numeric_limits<T>::max()});
            w[pos][ax] = bad;
            std::vector<Tup> tp;
            for (auto &p : w) tp.push_back(mk(p));
            Outcome o = outcome_of([&] { Idx x(tp.begin(), tp.end()); (void) x; });
            expect(c, o, OTHER_STD, "wide_coordinate_not_rejected", J().num("points", L).num("position", pos).num("axis", ax).num("value", bad), true);
        }
    // the same violation with the coordinates supplied in a WIDER integer type than T (the range's value type need not be
    // value_type): values whose low digits(T) bits look harmless must still be rejected
    if constexpr (sizeof(T) < 8) {
        using WTup = decltype(std::tuple_cat(std::declval<std::array<uint64_t, D>>()));
        auto mkw = [&](const std::array<uint64_t, D> &p) { WTup t; std::apply([&](auto &...x) { size_t i = 0; ((x = p[i++]), ...); }, t); return t; };
        const uint64_t wide[] = {(uint64_t(1) << 32) + 7, uint64_t(1) << 40, (uint64_t(1) << 32), (uint64_t(1) << 63) + 3, (uint64_t(1) << 33) + uint64_t(maxc)};
        for (size_t pos = 0; pos < L; ++pos)
            for (size_t ax = 0; ax < D; ++ax) {
                std::vector<WTup> tp;
                for (size_t i = 0; i < L; ++i) {
                    std::array<uint64_t, D> w;
                    for (size_t d = 0; d < D; ++d) w[d] = pts[i][d];
                    if (i == pos) w[ax] = wide[(pos + ax + c.case_idx) % 5];
                    tp.push_back(mkw(w));
                }
                Outcome o = outcome_of([&] { Idx x(tp.begin(), tp.end()); (void) x; });
                expect(c, o, OTHER_STD, "wide_coordinate_not_rejected", J().num("points", L).num("position", pos).num("axis", ax)
                                            .num("value", wide[(pos + ax + c.case_idx) % 5]).str("coordinate_type", "uint64_t (wider than T)"), true);
            }
    }
    c.nontrivial = true;
}

// ------------------------------------------------------------------------------------------------ segmentation builder
template<class X> void builder_reject_case(Ctx &c) {
    using Model = pgm::internal::OptimalPiecewiseLinearModel<X, size_t>;
    size_t L = 2 + c.case_idx % 30;
    size_t eps = c.rng.pick<size_t>({0, 1, 4, 64});
    c.traits = "builder_non_increasing_x,len=" + std::to_string(L);
    c.input_hash = mix(mix(c.case_idx, eps), hash_str(c.cfg.name));
    std::vector<X> xs;
    X cur = X(c.rng.below(1000));
    for (size_t i = 0; i < L; ++i) { xs.push_back(cur); cur = X(cur + X(1 + c.rng.below(5))); }
    // at every position inside a segment: equal to / below its predecessor
    for (size_t pos = 1; pos < L; ++pos)
        for (int mode = 0; mode < 2; ++mode) {
            Model m(eps);
            bool in_segment = true;
            for (size_t i = 0; i < pos && in_segment; ++i) in_segment = m.add_point(xs[i], 7); // constant rank: always one segment
            if (!in_segment) continue;
            X bad = mode == 0 ? xs[pos - 1] : X(xs[pos - 1] - X(1 + c.rng.below(3)));
            if (mode == 1 && !(bad < xs[pos - 1])) continue;
            Outcome o = outcome_of([&] { m.add_point(bad, pos); });
            expect(c, o, LOGIC_ERROR, "non_increasing_point_not_rejected", J().num("position", pos).num("x", bad).num("previous_x", xs[pos - 1]).num("eps", eps));
        }
    if (c.case_idx % 10 == 0) {
        using SModel = pgm::internal::OptimalPiecewiseLinearModel<int64_t, int64_t>;
        for (int64_t e : {int64_t(-1), int64_t(-2), std::numeric_limits<int64_t>::lowest()}) {
            Outcome o = outcome_of([&] { SModel m(e); (void) m; });
            expect(c, o, INVALID_ARGUMENT, "negative_epsilon_not_rejected", J().num("epsilon", e));
        }
    }
    c.nontrivial = true;
}

#define VF_REJ_STATIC(NAME, K, ...) VF_REGISTER(std::string("reject/reserved,") + NAME, (&::vf::reserved_static_case<K, __VA_ARGS__>), 1.0)
#define VF_REJ_MAPPED(K, E, ER) VF_REGISTER(std::string("reject/reserved,mapped,") + ::vf::KT<K>::name(), (&::vf::reserved_mapped_case<K, E, ER>), 1.0)
#define VF_REJ_DYN(NAME, K, V, ...) VF_REGISTER(std::string("reject/dyn,") + NAME, (&::vf::dyn_reject_case<K, V, __VA_ARGS__>), 1.6)
#define VF_REJ_MD(D, T, E) VF_REGISTER(std::string("reject/md,d" #D ",") + ::vf::KT<T>::name(), (&::vf::md_reject_case<D, T, E>), 0.35)
#define VF_REJ_BUILDER(X) VF_REGISTER(std::string("reject/builder,") + ::vf::KT<X>::name(), (&::vf::builder_reject_case<X>), 0.5)

} // namespace vf

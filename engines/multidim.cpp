#include "multidim.hpp"
namespace {
#if VF_GROUP == 0
VF_MD(2, uint32_t, 1, 4);
VF_MD(3, uint64_t, 12, 4);
VF_MD(4, uint32_t, 3, 0);
VF_MD_F(2, uint64_t, 5, 4, double);
#elif VF_GROUP == 1
VF_MD(3, uint32_t, 6, 4);
VF_MD(2, uint64_t, 1, 2);
VF_MD(4, uint64_t, 48, 4);
#elif VF_GROUP == 2
VF_MD(2, uint32_t, 64, 0);
VF_MD(3, uint64_t, 24, 4);
VF_MD(4, uint64_t, 2, 4);
VF_MD_F(3, uint32_t, 2, 0, double);
#else
VF_MD(2, uint64_t, 16, 4);
VF_MD(3, uint32_t, 7, 0);
VF_MD(4, uint32_t, 1, 4);
#endif
}

// Engine `multidim`: MultidimensionalPGMIndex range enumeration (C13) and membership (C14) against brute force over
// the stored multiset, with an independent Morton interleaver; memory monitor (C17).
#pragma once

#include "pgm/pgm_index.hpp"
#include "pgm/pgm_index_variants.hpp"
#include "vf_gen.hpp"
#include "vf_life.hpp"
#include <array>
#include <map>
#include <memory>
#include <tuple>

namespace vf {

template<class T, size_t D> using Pt = std::array<T, D>;

template<class T, size_t D, size_t... I> auto to_tuple_impl(const Pt<T, D> &p, std::index_sequence<I...>) { return std::make_tuple(p[I]...); }
template<class T, size_t D> auto to_tuple(const Pt<T, D> &p) { return to_tuple_impl<T, D>(p, std::make_index_sequence<D>()); }
template<class U, class T, size_t D, size_t... I> auto to_tuple_as_impl(const Pt<T, D> &p, std::index_sequence<I...>) { return std::make_tuple(U(p[I])...); }
/// the same point as a tuple of a narrower element type U (the caller has checked that every coordinate fits)
template<class U, class T, size_t D> auto to_tuple_as(const Pt<T, D> &p) { return to_tuple_as_impl<U, T, D>(p, std::make_index_sequence<D>()); }
template<class T, size_t D, class Tup, size_t... I> Pt<T, D> from_tuple_impl(const Tup &t, std::index_sequence<I...>) { return Pt<T, D>{T(std::get<I>(t))...}; }
template<class T, size_t D, class Tup> Pt<T, D> from_tuple(const Tup &t) { return from_tuple_impl<T, D>(t, std::make_index_sequence<D>()); }

/// own interleaver: bit b of dimension d goes to position b*D + d (dimension 0 least significant)
template<class T, size_t D> unsigned __int128 interleave(const Pt<T, D> &p) {
    unsigned __int128 z = 0;
    constexpr size_t fb = std::numeric_limits<T>::digits / D;
    for (size_t b = 0; b < fb; ++b)
        for (size_t d = 0; d < D; ++d)
            if ((p[d] >> b) & 1) z |= (unsigned __int128) 1 << (b * D + d);
    return z;
}

template<class T, size_t D> bool in_box(const Pt<T, D> &a, const Pt<T, D> &b, const Pt<T, D> &p) {
    for (size_t d = 0; d < D; ++d)
        if (p[d] < a[d] || p[d] > b[d]) return false;
    return true;
}

template<class T, size_t D> std::string pt_str(const Pt<T, D> &p) {
    std::string s;
    for (size_t d = 0; d < D; ++d) s += (d ? "," : "") + std::to_string((unsigned long long) p[d]);
    return s;
}

template<class T, size_t D> struct MdCase {
    std::vector<Pt<T, D>> pts;
    std::vector<std::pair<Pt<T, D>, Pt<T, D>>> boxes;
    std::vector<Pt<T, D>> probes;
    std::string family;
};

template<uint8_t D, class T, size_t Eps, size_t EpsRec, class Floating = float>
void md_case(Ctx &c) {
    using Idx = pgm::MultidimensionalPGMIndex<D, T, Eps, EpsRec, Floating>;
    using P = Pt<T, D>;
    constexpr size_t fb = std::numeric_limits<T>::digits / D;
    const T maxc = T((T(1) << (fb - 1)) - 1); // largest coordinate the encoder accepts
    MdCase<T, D> mc;
    auto &r = c.rng;
    auto parse_pts = [&](const std::vector<std::string> &toks) {
        std::vector<P> out;
        for (size_t i = 0; i + D <= toks.size(); i += D) {
            P p;
            for (size_t d = 0; d < D; ++d) p[d] = fromstr<T>(toks[i + d]);
            out.push_back(p);
        }
        return out;
    };
    if (c.given) {
        mc.pts = parse_pts(c.given->get("points"));
        auto bx = parse_pts(c.given->get("boxes"));
        for (size_t i = 0; i + 1 < bx.size(); i += 2) mc.boxes.emplace_back(bx[i], bx[i + 1]);
        mc.probes = parse_pts(c.given->get("probes"));
        mc.family = c.given->one_str("family", "spec");
        if (mc.probes.empty()) mc.probes = mc.pts; // witnesses with more than 3000 probes are stored without them: every stored point is probed
    } else {
        int fam = int(r.below(6));
        if (r.chance(1, 40)) fam = 6;
        else if (r.chance(1, 40)) fam = 7;
        else if (r.chance(1, 8)) fam = 8;
        size_t n;
        T u; // coordinates drawn from [0, u]
        auto rnd_pt = [&](T lim) {
            P p;
            for (size_t d = 0; d < D; ++d) p[d] = T(r.below(uint64_t(lim) + 1));
            return p;
        };
        switch (fam) {
            case 0: { // dense grid with duplicates: universe 2^1..2^4 per axis
                mc.family = "dense_grid";
                u = std::min<T>(maxc, T((T(1) << (1 + r.below(4))) - 1));
                n = 1 + r.below(c.thorough() ? 5000 : 1500);
                for (size_t i = 0; i < n; ++i) mc.pts.push_back(rnd_pt(u));
                break;
            }
            case 1: { // sparse uniform over the whole encodable space
                mc.family = "sparse_uniform";
                u = maxc;
                n = 1 + r.below(600);
                for (size_t i = 0; i < n; ++i) mc.pts.push_back(rnd_pt(u));
                break;
            }
            case 2: { // coordinates at / near the encoder's maximum
                mc.family = "max_coordinates";
                u = maxc;
                n = 1 + r.below(200);
                for (size_t i = 0; i < n; ++i) {
                    P p;
                    for (size_t d = 0; d < D; ++d) p[d] = r.chance(1, 2) ? T(maxc - T(r.below(std::min<uint64_t>(maxc, 3) + 1))) : T(r.below(uint64_t(maxc) + 1));
                    mc.pts.push_back(p);
                }
                break;
            }
            case 3: { // clusters
                mc.family = "clusters";
                u = maxc;
                n = 1 + r.below(1200);
                size_t k = 1 + r.below(5);
                std::vector<P> centres;
                for (size_t i = 0; i < k; ++i) centres.push_back(rnd_pt(maxc));
                T w = T(std::min<uint64_t>(maxc, 1 + r.below(40)));
                for (size_t i = 0; i < n; ++i) {
                    P p = centres[r.below(k)];
                    for (size_t d = 0; d < D; ++d) p[d] = T(std::min<uint64_t>(maxc, uint64_t(p[d]) + r.below(uint64_t(w) + 1)));
                    mc.pts.push_back(p);
                }
                break;
            }
            case 4: { // points on a line (one axis varies) and thin slabs
                mc.family = "line";
                u = std::min<T>(maxc, T(r.pick<uint64_t>({63, 255, 4000})));
                n = 1 + r.below(1500);
                size_t ax = r.below(D);
                P base = rnd_pt(u);
                for (size_t i = 0; i < n; ++i) {
                    P p = base;
                    p[ax] = T(r.below(uint64_t(u) + 1));
                    if (r.chance(1, 10)) p[(ax + 1) % D] = T(r.below(uint64_t(u) + 1));
                    mc.pts.push_back(p);
                }
                break;
            }
            case 6: { // >= 2^15 points: the inner index is built by the chunked, multi-threaded builder (thread count = this
                // worker's OMP_NUM_THREADS); a coarse grid, so that every cell is stored many times and runs of equal codes
                // start at, end at and straddle the chunk boundaries
                mc.family = "big_dense_grid";
                u = std::min<T>(maxc, T((T(1) << (3 + r.below(4))) - 1));
                n = (size_t(1) << 15) + r.below(size_t(1) << 15);
                if (r.chance(1, 2)) {
                    // lopsided universe: an independent bit width per axis (0..12 bits), so that the position of the highest
                    // set bit of the largest Morton code takes every value, byte and digit boundaries included
                    mc.family = "big_lopsided_grid";
                    P lim;
                    u = 0;
                    for (size_t d = 0; d < D; ++d) {
                        lim[d] = T(std::min<uint64_t>(maxc, (uint64_t(1) << r.below(13)) - 1));
                        u = std::max(u, lim[d]);
                    }
                    for (size_t i = 0; i < n; ++i) {
                        P p;
                        for (size_t d = 0; d < D; ++d) p[d] = T(r.below(uint64_t(lim[d]) + 1));
                        mc.pts.push_back(p);
                    }
                    mc.pts[0] = lim; // the corner itself is stored
                    break;
                }
                for (size_t i = 0; i < n; ++i) mc.pts.push_back(rnd_pt(u));
                break;
            }
            case 7: { // >= 2^15 points whose LAST few codes break the trend of the rest: a body in the lower part of the space
                // (or over all of it) and up to 25 points packed into the far corner. n is arbitrary modulo the chunk count,
                // so a builder that mishandles the remainder of n / chunks leaves exactly these points without a segment.
                // The corner points come first in `pts`, so that all of them are membership probes.
                mc.family = "big_far_tail";
                u = r.chance(1, 2) ? maxc : T(std::max<uint64_t>(1, uint64_t(maxc) / 8));
                n = (size_t(1) << 15) + r.below(4096);
                size_t tail = 1 + r.below(25);
                for (size_t i = 0; i < tail; ++i) {
                    P p;
                    for (size_t d = 0; d < D; ++d) p[d] = T(maxc - T(r.below(std::min<uint64_t>(maxc, 3) + 1)));
                    mc.pts.push_back(p);
                }
                for (size_t i = tail; i < n; ++i) mc.pts.push_back(rnd_pt(u));
                break;
            }
            case 8: { // 3..9 small dense clusters at REGULAR, far-apart spacing (on the diagonal, along one axis, or on a
                // lattice): the Morton codes form equally sized groups separated by equal, enormous gaps, so that one
                // segment spans several groups with commensurable distances between its pivots - predictions that are
                // integers exactly, the place where the rounding of the intercept decides on which side of the band they fall
                mc.family = "regular_far_clusters";
                u = maxc;
                size_t k = 3 + r.below(7);
                uint64_t spacing = std::max<uint64_t>(1, uint64_t(maxc) / (k + r.below(3)));
                switch (r.below(4)) { // as is; a power of two; a power of two minus one (every coordinate bit below it set)
                    case 0: spacing = uint64_t(1) << (63 - __builtin_clzll(spacing | 1)); break;
                    case 1: case 2: spacing = std::max<uint64_t>(1, (uint64_t(1) << (63 - __builtin_clzll(spacing | 1))) - 1); break;
                    default: break;
                }
                T w = T(std::min<uint64_t>(std::max<uint64_t>(spacing / 4, 1), r.pick<uint64_t>({1, 3, 7, 31, 63})));
                size_t per = r.chance(1, 2) ? 4 + r.below(120) : 300 + r.below(2500); // few or MANY segments per cluster (upper levels see clusters of segment keys)
                int layout = int(r.below(3));
                size_t ax = r.below(D);
                T off = T(r.below(std::min<uint64_t>(spacing, 1000)));
                n = 0;
                for (size_t j = 0; j < k; ++j) {
                    P centre{};
                    for (size_t d = 0; d < D; ++d) {
                        uint64_t v = layout == 0 ? j * spacing : layout == 1 ? (d == ax ? j * spacing : uint64_t(off)) : ((j >> d) & 1) * spacing * (k / 2);
                        centre[d] = T(std::min<uint64_t>(uint64_t(maxc) - uint64_t(w), v));
                    }
                    size_t cnt = r.chance(1, 2) ? per : 1 + r.below(per);
                    for (size_t i = 0; i < cnt; ++i, ++n) {
                        P p = centre;
                        for (size_t d = 0; d < D; ++d) p[d] = T(uint64_t(p[d]) + r.below(uint64_t(w) + 1));
                        mc.pts.push_back(p);
                    }
                }
                // every stored point is a membership probe: shuffle, so that the first 600 are spread over all clusters
                for (size_t i = mc.pts.size(); i > 1; --i) std::swap(mc.pts[i - 1], mc.pts[r.below(i)]);
                break;
            }
            default: { // tiny point sets
                mc.family = "tiny";
                u = r.chance(1, 2) ? maxc : T(std::min<uint64_t>(maxc, 7));
                n = 1 + r.below(3);
                for (size_t i = 0; i < n; ++i) mc.pts.push_back(rnd_pt(u));
            }
        }
        // boxes
        size_t nb = c.thorough() ? 40 : 24;
        P lo_all{}, hi_all;
        hi_all.fill(maxc);
        // the stored point with the largest code
        P largest = mc.pts[0];
        for (auto &p : mc.pts)
            if (interleave<T, D>(p) > interleave<T, D>(largest)) largest = p;
        for (size_t b = 0; b < nb; ++b) {
            P a = rnd_pt(u), bb = rnd_pt(u);
            switch (b % 12) {
                case 0: a = lo_all; bb = hi_all; break;                               // full space
                case 1: a = bb = mc.pts[r.below(mc.pts.size())]; break;               // single stored cell
                case 2: a = bb = rnd_pt(u); break;                                    // single (probably empty) cell
                case 3: { // one-cell-thick slab
                    size_t ax = r.below(D);
                    a = lo_all; bb = hi_all;
                    a[ax] = bb[ax] = mc.pts[r.below(mc.pts.size())][ax];
                    break;
                }
                case 4: a = mc.pts[r.below(mc.pts.size())]; bb = mc.pts[r.below(mc.pts.size())]; break; // stored corners
                case 5: a = lo_all; bb = largest; break;                              // reaches the largest stored point
                case 6: a = largest; bb = hi_all; break;
                case 7: { // thin box far along one axis: many out-of-box codes between hits -> the Z-order skip is taken
                    size_t ax = r.below(D);
                    a = lo_all; bb = hi_all;
                    size_t ax2 = (ax + 1) % D;
                    T v = T(r.below(uint64_t(u) + 1));
                    a[ax2] = v; bb[ax2] = T(std::min<uint64_t>(maxc, uint64_t(v) + r.below(2)));
                    break;
                }
                case 8: bb = hi_all; break;
                case 9: a = lo_all; break;
                default: break;
            }
            for (size_t d = 0; d < D; ++d)
                if (a[d] > bb[d]) std::swap(a[d], bb[d]);
            mc.boxes.emplace_back(a, bb);
        }
        // membership probes
        const size_t probe_cap = mc.family == "regular_far_clusters" ? 200000 : 600; // there, every stored point is probed
        for (auto &p : mc.pts) {
            if (mc.probes.size() > probe_cap) break;
            mc.probes.push_back(p);
            for (size_t d = 0; d < D; ++d) { // axis neighbours
                P q = p;
                if (q[d] < maxc) { q[d]++; mc.probes.push_back(q); }
                q = p;
                if (q[d] > 0) { q[d]--; mc.probes.push_back(q); }
            }
        }
        mc.probes.push_back(lo_all);
        mc.probes.push_back(hi_all);
        for (int i = 0; i < 30; ++i) mc.probes.push_back(rnd_pt(r.chance(1, 2) ? u : maxc));
        {
            P q = largest; // just above the largest stored code
            for (size_t d = 0; d < D; ++d) {
                P q2 = q;
                if (q2[d] < maxc) { q2[d] = T(q2[d] + 1); mc.probes.push_back(q2); }
            }
        }
    }
    auto flat = [&](const std::vector<P> &v) {
        std::vector<T> out;
        for (auto &p : v)
            for (size_t d = 0; d < D; ++d) out.push_back(p[d]);
        return out;
    };
    c.dumper = [&]() {
        Spec s;
        s.set_one("config", c.cfg.name);
        s.set_one("case", c.case_idx);
        s.set_one("family", mc.family);
        s.set_vec("points", flat(mc.pts));
        std::vector<P> bx;
        for (auto &b : mc.boxes) { bx.push_back(b.first); bx.push_back(b.second); }
        s.set_vec("boxes", flat(bx));
        if (mc.probes.size() < 3000) s.set_vec("probes", flat(mc.probes));
        return s;
    };
    c.traits = mc.family;
    Hasher h;
    h.add_vec(flat(mc.pts));
    c.input_hash = h.h;
    const size_t n = mc.pts.size();
    if (n == 0) return;
    c.predump();

    using Tup = decltype(to_tuple<T, D>(mc.pts[0]));
    std::vector<Tup> tp;
    for (auto &p : mc.pts) tp.push_back(to_tuple<T, D>(p));
    std::unique_ptr<Idx> xp;
    {
        // The constructor accepts any tuple-like element type; when every coordinate fits a narrower unsigned type, a third
        // of the cases hand the points over as tuples of THAT type (uint32_t for a 64-bit index, uint16_t for a 32-bit one).
        using U = std::conditional_t<sizeof(T) == 8, uint32_t, uint16_t>;
        bool fits = true;
        for (auto &p : mc.pts)
            for (size_t d = 0; d < D; ++d) fits = fits && uint64_t(p[d]) <= uint64_t(std::numeric_limits<U>::max());
        bool as_pairs = false;
        if constexpr (D == 2) as_pairs = mix(c.input_hash, 0x9a1f) % 5 == 0;
        if (as_pairs) {
            if constexpr (D == 2) { // a 2-dimensional index also accepts a range of std::pair
                std::vector<std::pair<T, T>> pp;
                for (auto &p : mc.pts) pp.emplace_back(p[0], p[1]);
                xp.reset(new Idx(pp.begin(), pp.end()));
                c.count("built_from_pairs");
            }
        } else if (fits && mix(c.input_hash, 0x7a77) % 3 == 0) {
            std::vector<decltype(to_tuple_as<U, T, D>(mc.pts[0]))> np;
            for (auto &p : mc.pts) np.push_back(to_tuple_as<U, T, D>(p));
            xp.reset(new Idx(np.begin(), np.end()));
            c.count("built_from_tuples_of_narrower_type");
        } else
            xp.reset(new Idx(tp.begin(), tp.end()));
    }
    // half of the cases query a copied / moved-to / assigned-to / relocated object whose source is gone (vf_life.hpp)
    xp = object_lifecycle(c, std::move(xp), n > (size_t(1) << 20) ? 0 : int(mix(c.input_hash, 0x11fec7c1e) % 8));
    Idx &x = *xp;
    std::map<P, size_t> ms;
    for (auto &p : mc.pts) ++ms[p];
    std::vector<unsigned __int128> codes;
    for (auto &p : mc.pts) codes.push_back(interleave<T, D>(p));
    std::sort(codes.begin(), codes.end());
    std::vector<std::pair<unsigned __int128, P>> by_code;
    for (auto &p : mc.pts) by_code.emplace_back(interleave<T, D>(p), p);
    std::sort(by_code.begin(), by_code.end());

    const bool c13 = c.prop("C13") || c.prop("C17"), c14 = c.prop("C14") || c.prop("C17");
    uint64_t boxes_judged = 0, results = 0, skip_runs = 0, dup_in_box = 0, steps_total = 0;
    uint64_t absent_below = 0, absent_between = 0, absent_above = 0, present = 0;
    if (c13) {
        for (auto &bx : mc.boxes) {
            const P &a = bx.first, &b = bx.second;
            std::map<P, size_t> exp;
            size_t expn = 0;
            for (auto &kv : ms)
                if (in_box<T, D>(a, b, kv.first)) { exp[kv.first] = kv.second; expn += kv.second; if (kv.second > 1) ++dup_in_box; }
            // skip-eligible runs: more than 64 consecutive stored codes inside [zmin, zmax] but outside the box
            {
                unsigned __int128 zmin = interleave<T, D>(a), zmax = interleave<T, D>(b);
                size_t run = 0;
                for (auto &cp : by_code) {
                    if (cp.first < zmin || cp.first > zmax) continue;
                    if (in_box<T, D>(a, b, cp.second)) run = 0;
                    else if (++run == 65) ++skip_runs;
                }
            }
            std::map<P, size_t> got;
            size_t steps = 0;
            bool bad = false;
            unsigned __int128 prev = 0;
            for (auto it = x.range(to_tuple<T, D>(a), to_tuple<T, D>(b)); it != x.end(); ++it) {
                P p = from_tuple<T, D>(*it);
                unsigned __int128 z = interleave<T, D>(p);
                if (!in_box<T, D>(a, b, p)) {
                    c.violation("point_outside_box", J().str("box_min", pt_str<T, D>(a)).str("box_max", pt_str<T, D>(b)).str("point", pt_str<T, D>(p)).num("n", n));
                    bad = true;
                    break;
                }
                if (steps > 0 && z < prev) {
                    c.violation("not_in_morton_order", J().str("box_min", pt_str<T, D>(a)).str("box_max", pt_str<T, D>(b)).str("point", pt_str<T, D>(p)).num("step", steps));
                    bad = true;
                    break;
                }
                prev = z;
                ++got[p];
                if (++steps > n + 1) {
                    c.violation("range_does_not_terminate", J().str("box_min", pt_str<T, D>(a)).str("box_max", pt_str<T, D>(b)).num("steps", steps).num("n", n));
                    bad = true;
                    break;
                }
            }
            steps_total += steps;
            ++boxes_judged;
            results += expn;
            if (!bad && got != exp) {
                // find one witness point
                std::string w = "?";
                long long gc = 0, ec = 0;
                for (auto &kv : exp) {
                    auto gi = got.find(kv.first);
                    if (gi == got.end() || gi->second != kv.second) { w = pt_str<T, D>(kv.first); ec = (long long) kv.second; gc = gi == got.end() ? 0 : (long long) gi->second; break; }
                }
                if (w == "?")
                    for (auto &kv : got)
                        if (!exp.count(kv.first)) { w = pt_str<T, D>(kv.first); gc = (long long) kv.second; break; }
                c.violation("range_result_mismatch", J().str("box_min", pt_str<T, D>(a)).str("box_max", pt_str<T, D>(b)).num("expected_points", expn).num("got_points", steps)
                                                         .str("witness_point", w).num("witness_expected_multiplicity", ec).num("witness_got_multiplicity", gc).num("n", n));
            }
            if (c.violations_in_case >= 3) break;
        }
    }
    if (c14) {
        unsigned __int128 zlo = codes.front(), zhi = codes.back();
        for (auto &p : mc.probes) {
            bool e = ms.count(p) > 0;
            bool g = x.contains(to_tuple<T, D>(p));
            unsigned __int128 z = interleave<T, D>(p);
            if (e) ++present;
            else if (z < zlo) ++absent_below;
            else if (z > zhi) ++absent_above;
            else ++absent_between;
            if (e != g) {
                c.violation("contains_mismatch", J().str("point", pt_str<T, D>(p)).boolean("contains", g).boolean("stored", e)
                                                     .str("position", e ? "stored" : z < zlo ? "below_smallest_code" : z > zhi ? "above_largest_code" : "between_codes").num("n", n));
                if (c.violations_in_case >= 3) break;
            }
        }
    }
    c.count("boxes", boxes_judged);
    c.count("expected_results", results);
    c.count("iterator_steps", steps_total);
    c.count("skip_eligible_runs", skip_runs);
    c.count("duplicate_points_in_boxes", dup_in_box);
    c.count("contains_present", present);
    c.count("contains_absent_below", absent_below);
    c.count("contains_absent_between", absent_between);
    c.count("contains_absent_above", absent_above);
    c.count("family_" + mc.family);
    c.maxc("max_n", n);
    if (c.prop("C13")) c.nontrivial = skip_runs > 0 || dup_in_box > 0;
    else if (c.prop("C14")) c.nontrivial = absent_between > 0 && (absent_below > 0 || absent_above > 0);
    else c.nontrivial = true;
    if (c.want_sample()) c.sample(J().num("n", n).num("boxes", boxes_judged).num("skip_eligible_runs", skip_runs));
}

#define VF_MD_F(D, T, E, ER, F)                                                                                        \
    VF_REGISTER(std::string("md/d" #D ",") + ::vf::KT<T>::name() + ",e" #E ",er" #ER "," #F, (&::vf::md_case<D, T, E, ER, F>), 1.0)
#define VF_MD(D, T, E, ER)                                                                                             \
    VF_REGISTER(std::string("md/d" #D ",") + ::vf::KT<T>::name() + ",e" #E ",er" #ER, (&::vf::md_case<D, T, E, ER>), 1.0)

} // namespace vf

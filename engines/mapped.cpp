#include "mapped.hpp"
namespace {
#if VF_GROUP == 0
VF_MAPPED(int16_t, 2, 1);
VF_MAPPED(uint32_t, 6, 4);
VF_MAPPED(uint64_t, 1, 0);
VF_MAPPED_F(uint64_t, 4, 4, double);
#elif VF_GROUP == 1
VF_MAPPED(int32_t, 3, 0);
VF_MAPPED(uint16_t, 1, 4);
VF_MAPPED(int64_t, 24, 3);
VF_MAPPED_F(int64_t, 2, 1, double);
#elif VF_GROUP == 2
VF_MAPPED(int64_t, 1, 1);
VF_MAPPED(uint32_t, 2, 0);
VF_MAPPED(uint16_t, 100, 4);
VF_MAPPED_F(uint32_t, 16, 0, double);
#else
VF_MAPPED(uint64_t, 12, 5);
VF_MAPPED(int32_t, 128, 0);
VF_MAPPED(int16_t, 8, 0);
VF_MAPPED_F(int16_t, 1, 4, double);
#endif
}

// Engine `copymove`: copies and moves of every index class must be independent values (C19). Runs under ASan: a
// pointer cached into the source shows as heap-use-after-free once the source is destroyed.
#pragma once

#include "pgm/pgm_index.hpp"
#include "pgm/pgm_index_variants.hpp"
#include "pgm/pgm_index_dynamic.hpp"
#include "vf_gen.hpp"
#include <memory>
#include <tuple>

namespace vf {

enum CmOp { COPY_CTOR, COPY_ASSIGN_EMPTY, COPY_ASSIGN_POPULATED, MOVE_CTOR, MOVE_ASSIGN_EMPTY, MOVE_ASSIGN_POPULATED, COPY_OF_COPY, CM_NOPS };
enum CmAfter { DESTROY_SRC, MODIFY_SRC, KEEP_SRC, CM_NAFTER };
static const char *cm_op_names[] = {"copy_ctor", "copy_assign_over_empty", "copy_assign_over_populated", "move_ctor",
                                    "move_assign_over_empty", "move_assign_over_populated", "copy_of_copy"};
static const char *cm_after_names[] = {"destroy_source", "modify_source", "keep_source"};

inline void churn(Rng &r, size_t approx_bytes) {
    // recycle freed blocks with garbage so that a dangling pointer does not keep seeing the old contents
    std::vector<std::unique_ptr<std::vector<uint64_t>>> v;
    for (int i = 0; i < 24; ++i) {
        size_t words = 1 + r.below(std::max<size_t>(approx_bytes / 8, 8) * 2);
        v.emplace_back(new std::vector<uint64_t>(words, 0xDEADBEEFCAFEF00Dull ^ r.next()));
    }
}

template<class C> constexpr bool has_default_ctor = std::is_default_constructible_v<C>;

/// build(which) -> new C for dataset `which` (0 = the source's data, 1 = other data); answers(C&) -> digest vector;
/// modify(C& src, build) changes the source in place.
template<class C, class Build, class Answers, class Modify>
void run_copymove(Ctx &c, int op, int after, Build build, Answers answers, Modify modify, size_t approx_bytes) {
    auto skip = [&](const char *why) { c.count(std::string("skipped_") + why); };
    std::unique_ptr<C> src(build(0));
    const std::vector<uint64_t> expected = answers(*src);
    std::unique_ptr<C> dst, mid;
    switch (op) {
        case COPY_CTOR:
            if constexpr (std::is_copy_constructible_v<C>) dst.reset(new C(*src));
            else return skip("not_copy_constructible");
            break;
        case COPY_ASSIGN_EMPTY:
            if constexpr (std::is_copy_assignable_v<C> && has_default_ctor<C>) { dst.reset(new C()); *dst = *src; }
            else return skip("not_copy_assignable");
            break;
        case COPY_ASSIGN_POPULATED:
            if constexpr (std::is_copy_assignable_v<C>) { dst.reset(build(1)); *dst = *src; }
            else return skip("not_copy_assignable");
            break;
        case MOVE_CTOR:
            if constexpr (std::is_move_constructible_v<C>) dst.reset(new C(std::move(*src)));
            else return skip("not_move_constructible");
            break;
        case MOVE_ASSIGN_EMPTY:
            if constexpr (std::is_move_assignable_v<C> && has_default_ctor<C>) { dst.reset(new C()); *dst = std::move(*src); }
            else return skip("not_move_assignable");
            break;
        case MOVE_ASSIGN_POPULATED:
            if constexpr (std::is_move_assignable_v<C>) { dst.reset(build(1)); *dst = std::move(*src); }
            else return skip("not_move_assignable");
            break;
        default:
            if constexpr (std::is_copy_constructible_v<C>) { mid.reset(new C(*src)); dst.reset(new C(*mid)); mid.reset(); }
            else return skip("not_copy_constructible");
    }
    bool moved = op == MOVE_CTOR || op == MOVE_ASSIGN_EMPTY || op == MOVE_ASSIGN_POPULATED;
    // the copy must answer like the source did, before anything happens to the source
    if (answers(*dst) != expected)
        c.violation("copy_answers_differ", J().str("operation", cm_op_names[op]).str("when", "immediately"));
    switch (after) {
        case DESTROY_SRC:
            src.reset();
            churn(c.rng, approx_bytes);
            break;
        case MODIFY_SRC:
            if (!moved) modify(*src);
            else { src.reset(); churn(c.rng, approx_bytes); }
            break;
        default: break;
    }
    auto got = answers(*dst);
    if (got != expected) {
        size_t i = 0;
        while (i < std::min(got.size(), expected.size()) && got[i] == expected[i]) ++i;
        c.violation("copy_answers_differ", J().str("operation", cm_op_names[op]).str("when", std::string("after_") + cm_after_names[after])
                                               .num("first_differing_answer", i).num("answers", expected.size()));
    }
    c.count(std::string("op_") + cm_op_names[op]);
    c.count(std::string("after_") + cm_after_names[after]);
    c.count("answers_compared", expected.size());
    dst.reset();
    src.reset();
    c.nontrivial = after != KEEP_SRC;
    if (c.want_sample())
        c.sample(J().str("operation", cm_op_names[op]).str("aftermath", cm_after_names[after]).num("answers_compared", expected.size()));
}

inline void cm_pick(Ctx &c, int &op, int &after) {
    if (c.given) {
        op = c.given->one<int>("op", 0);
        after = c.given->one<int>("after", 0);
    } else {
        op = int(c.case_idx % CM_NOPS);
        after = int((c.case_idx / CM_NOPS) % CM_NAFTER);
    }
}

// ------------------------------------------------------------------------------------------------ static classes
template<class K, class Idx>
void cm_static_case(Ctx &c) {
    int op, after;
    cm_pick(c, op, after);
    std::string fam;
    std::vector<K> a = c.given ? c.given->vec<K>("keys") : gen_keys<K>(c.rng, Idx::epsilon_value, 3000, fam);
    std::vector<K> b = c.given ? c.given->vec<K>("keys_b") : gen_keys<K>(c.rng, Idx::epsilon_value, 3000, fam);
    if constexpr (std::is_floating_point_v<K>) {
        if (!float_domain_ok<K, float>(a) || !float_domain_ok<K, float>(b)) return;
    }
    std::vector<K> qs = gen_queries(a, c.rng, 400);
    c.dumper = [&]() {
        Spec s;
        s.set_one("config", c.cfg.name); s.set_one("case", c.case_idx); s.set_one("op", op); s.set_one("after", after);
        s.set_vec("keys", a); s.set_vec("keys_b", b);
        return s;
    };
    c.traits = std::string(cm_op_names[op]) + "/" + cm_after_names[after];
    Hasher h; h.add_vec(a); h.add_vec(b); h.add(op); h.add(after);
    c.input_hash = h.h;
    c.predump();
    auto build = [&](int which) { auto &d = which ? b : a; return new Idx(d.begin(), d.end()); };
    auto answers = [&](const Idx &x) {
        std::vector<uint64_t> out;
        for (auto &q : qs) { auto r = x.search(q); out.push_back(r.pos); out.push_back(r.lo); out.push_back(r.hi); }
        out.push_back(x.segments_count()); out.push_back(x.height()); out.push_back(x.size_in_bytes());
        return out;
    };
    auto modify = [&](Idx &src) {
        if constexpr (std::is_copy_assignable_v<Idx>) { std::unique_ptr<Idx> other(build(1)); src = *other; }
        else if constexpr (std::is_move_assignable_v<Idx>) { std::unique_ptr<Idx> other(build(1)); src = std::move(*other); }
    };
    run_copymove<Idx>(c, op, after, build, answers, modify, a.size() * sizeof(K) / 4 + 64);
}

/// Assignment chain: ONE long-lived object is assigned a ladder of large indexes whose sizes shrink (or grow) by a few
/// percent per step, alternating copy- and move-assignment, the source destroyed each time. State left over from the
/// previous, slightly different content (tables sized by thresholds, cached tails, select / rank directories) shows up as a
/// wrong answer right after the step at which the sizes straddle whatever threshold governs that state.
template<class K, class Idx>
void cm_chain_case(Ctx &c) {
    using D = UDom<K>;
    size_t n0 = 200000 + c.rng.below(c.thorough() ? 1400000 : 1000000);
    double ratio = 0.90 + 0.085 * c.rng.unit();
    int steps = 5 + int(c.rng.below(c.thorough() ? 14 : 8));
    bool down = c.rng.chance(2, 3);
    std::vector<K> master(n0);
    const bool irregular = c.rng.chance(1, 2); // a segment every few keys: several hundred thousand segments per index
    if (irregular) master = gen_irregular_keys<K>(c.rng, n0);
    else {
        uint64_t cur = c.rng.below(1000), maxstep = std::max<uint64_t>(1, std::min<uint64_t>(D::R / n0, c.rng.pick<uint64_t>({3, 40, 100000})));
        for (auto &x : master) { x = D::to_key(cur); cur = sat_add(cur, c.rng.below(maxstep + 1), D::R); }
    }
    std::vector<size_t> sizes;
    double sz = double(n0);
    for (int i = 0; i <= steps && sz > 1000; ++i, sz *= ratio) sizes.push_back(size_t(sz));
    if (!down) std::reverse(sizes.begin(), sizes.end());
    c.traits = std::string("assignment_chain,") + (down ? "shrinking" : "growing");
    Hasher h; h.add(n0); h.add(uint64_t(ratio * 1e6)); h.add(steps); h.add(c.rng.s);
    c.input_hash = h.h;
    c.dumper = [&]() {
        Spec s;
        s.set_one("config", c.cfg.name); s.set_one("case", c.case_idx); s.set_vec("chain_sizes", sizes);
        s.set_one("note", "keys_regenerated_from_seed");
        return s;
    };
    auto answers = [&](const Idx &x, size_t n) {
        std::vector<uint64_t> out;
        Rng qr(12345);
        auto ask = [&](const K &q) { auto r = x.search(q); out.push_back(r.pos); out.push_back(r.lo); out.push_back(r.hi); };
        for (int i = 0; i < 3000; ++i) ask(master[qr.below(n)]);
        for (size_t i = n > 400 ? n - 400 : 0; i < n; ++i) ask(master[i]);   // the top end of the key range
        for (size_t i = 0; i < std::min<size_t>(n, 100); ++i) ask(master[i]);
        ask(key_maxvalid<K>());
        out.push_back(x.segments_count()); out.push_back(x.height()); out.push_back(x.size_in_bytes());
        return out;
    };
    std::unique_ptr<Idx> dst(new Idx(master.begin(), master.begin() + sizes[0]));
    uint64_t compared = 0;
    for (size_t k = 1; k < sizes.size(); ++k) {
        std::unique_ptr<Idx> src(new Idx(master.begin(), master.begin() + sizes[k]));
        auto expected = answers(*src, sizes[k]);
        bool moved = k % 2 == 0;
        if constexpr (std::is_move_assignable_v<Idx> && std::is_copy_assignable_v<Idx>) {
            if (k % 5 == 4) dst.reset(new Idx(*src)); // now and then the long-lived object is replaced by a copy-constructed one
            else if (moved) *dst = std::move(*src);
            else *dst = *src;
        } else if constexpr (std::is_copy_assignable_v<Idx>) *dst = *src;
        else return;
        src.reset();
        auto got = answers(*dst, sizes[k]);
        compared += got.size();
        if (got != expected) {
            size_t i = 0;
            while (i < std::min(got.size(), expected.size()) && got[i] == expected[i]) ++i;
            c.violation("copy_answers_differ", J().str("operation", k % 5 == 4 ? "copy_construct_replacing_populated" : moved ? "move_assign_over_populated" : "copy_assign_over_populated").str("when", "assignment_chain")
                                                   .num("step", k).num("previous_size", sizes[k - 1]).num("assigned_size", sizes[k]).num("first_differing_answer", i));
            break;
        }
    }
    c.count("assignment_chains");
    if (irregular) c.count("assignment_chains_over_irregular_keys");
    c.maxc("max_chain_segments", dst->segments_count());
    c.count("chain_steps", sizes.size() - 1);
    c.count("answers_compared", compared);
    c.maxc("max_chain_index_size", n0);
    c.nontrivial = true;
    if (c.want_sample()) c.sample(J().num("first_size", sizes[0]).num("last_size", sizes.back()).num("steps", sizes.size() - 1));
}

/// Copies of indexes whose NUMBER OF SEGMENTS sits on a block boundary of the succinct directories: a prefix of an irregular
/// array is located by bisection at which the index has exactly 4096*k segments, and every prefix within a few keys of it whose
/// segment count is 4096*k-1, 4096*k or 4096*k+1 is built, copy-constructed and copy-assigned, the source destroyed, and the
/// copy compared with what the source answered (block-wise copy loops have their off-by-one exactly there).
template<class K, class Idx>
void cm_mult_case(Ctx &c) {
    std::vector<K> keys = gen_irregular_keys<K>(c.rng, 50000 + c.rng.below(c.thorough() ? 250000 : 70000));
    const size_t n = keys.size();
    auto segs = [&](size_t len) { Idx x(keys.begin(), keys.begin() + len); return x.segments_count(); };
    c.traits = "copies_at_segment_count_multiple_of_4096";
    Hasher h; h.add(n); h.add(c.rng.s);
    c.input_hash = h.h;
    size_t kmax = segs(n) / 4096;
    if (kmax == 0) { c.count("mult_cases_too_few_segments"); return; }
    const size_t target = 4096 * (1 + c.rng.below(kmax));
    c.dumper = [&]() {
        Spec s;
        s.set_one("config", c.cfg.name); s.set_one("case", c.case_idx); s.set_one("target_segments", target);
        s.set_one("note", "keys_regenerated_from_seed");
        return s;
    };
    c.predump();
    size_t lo = 1, hi = n; // smallest prefix with at least `target` segments
    while (hi - lo > 1) { size_t mid = lo + (hi - lo) / 2; (segs(mid) >= target ? hi : lo) = mid; }
    auto answers = [&](const Idx &x, size_t len) {
        std::vector<uint64_t> out;
        Rng qr(777);
        auto ask = [&](const K &q) { auto r = x.search(q); out.push_back(r.pos); out.push_back(r.lo); out.push_back(r.hi); };
        for (int i = 0; i < 1500; ++i) ask(keys[qr.below(len)]);
        for (size_t i = len > 300 ? len - 300 : 0; i < len; ++i) ask(keys[i]);
        for (size_t i = 0; i < std::min<size_t>(len, 60); ++i) ask(keys[i]);
        ask(key_maxvalid<K>());
        out.push_back(x.segments_count()); out.push_back(x.height()); out.push_back(x.size_in_bytes());
        return out;
    };
    uint64_t on_boundary = 0, compared = 0;
    for (size_t len = hi > 12 ? hi - 12 : 1; len <= std::min(n, hi + 12) && c.violations_in_case < 3; ++len) {
        std::unique_ptr<Idx> src(new Idx(keys.begin(), keys.begin() + len));
        size_t sc = src->segments_count();
        if ((sc + 1) % 4096 > 2) continue; // residues 4095, 0, 1
        ++on_boundary;
        auto expected = answers(*src, len);
        std::unique_ptr<Idx> a, b;
        if constexpr (std::is_copy_constructible_v<Idx>) a.reset(new Idx(*src));
        if constexpr (std::is_copy_assignable_v<Idx> && std::is_default_constructible_v<Idx>) { b.reset(new Idx()); *b = *src; }
        src.reset();
        churn(c.rng, len * sizeof(K) / 4 + 64);
        for (auto *x : {a.get(), b.get()}) {
            if (!x) continue;
            auto got = answers(*x, len);
            compared += got.size();
            if (got != expected) {
                size_t i = 0;
                while (i < std::min(got.size(), expected.size()) && got[i] == expected[i]) ++i;
                c.violation("copy_answers_differ", J().str("operation", x == a.get() ? "copy_construct" : "copy_assign_to_empty").str("when", "segment_count_on_block_boundary")
                                                       .num("segments", sc).num("keys", len).num("first_differing_answer", i));
            }
        }
    }
    c.count("copies_at_block_boundary_segment_counts", on_boundary);
    c.count("answers_compared", compared);
    c.nontrivial = on_boundary > 0;
    if (c.want_sample()) c.sample(J().num("target_segments", target).num("prefix", hi).num("indexes_on_boundary", on_boundary));
}

// ------------------------------------------------------------------------------------------------ multidimensional
template<uint8_t D, class T, size_t Eps>
void cm_md_case(Ctx &c) {
    using Idx = pgm::MultidimensionalPGMIndex<D, T, Eps>;
    using Tup = typename Idx::value_type;
    int op, after;
    cm_pick(c, op, after);
    constexpr size_t fb = std::numeric_limits<T>::digits / D;
    const T maxc = T((T(1) << (fb - 1)) - 1);
    auto rnd = [&](T u) { std::array<T, D> p; for (auto &x : p) x = T(c.rng.below(uint64_t(u) + 1)); return p; };
    auto tup = [&](const std::array<T, D> &p) { Tup t; std::apply([&](auto &...x) { size_t i = 0; ((x = p[i++]), ...); }, t); return t; };
    T u = std::min<T>(maxc, T(c.rng.pick<uint64_t>({15, 300, uint64_t(maxc)})));
    std::vector<Tup> a, b, probes;
    size_t na = 1 + c.rng.below(800), nb = 1 + c.rng.below(800);
    for (size_t i = 0; i < na; ++i) a.push_back(tup(rnd(u)));
    for (size_t i = 0; i < nb; ++i) b.push_back(tup(rnd(u)));
    for (int i = 0; i < 60; ++i) probes.push_back(c.rng.chance(1, 2) ? a[c.rng.below(na)] : tup(rnd(u)));
    std::vector<std::pair<Tup, Tup>> boxes;
    for (int i = 0; i < 6; ++i) {
        auto p = rnd(u), q = rnd(u);
        for (size_t d = 0; d < D; ++d) if (p[d] > q[d]) std::swap(p[d], q[d]);
        boxes.emplace_back(tup(p), tup(q));
    }
    c.traits = std::string(cm_op_names[op]) + "/" + cm_after_names[after];
    Hasher h; h.add(na); h.add(nb); h.add(op); h.add(after); h.add(c.rng.s);
    c.input_hash = h.h;
    auto build = [&](int which) { auto &d = which ? b : a; return new Idx(d.begin(), d.end()); };
    auto hash_tup = [&](const Tup &t) { uint64_t hh = 7; std::apply([&](auto &...x) { ((hh = mix(hh, uint64_t(x))), ...); }, t); return hh; };
    auto answers = [&](Idx &x) {
        std::vector<uint64_t> out;
        for (auto &p : probes) out.push_back(x.contains(p));
        for (auto &bx : boxes) {
            size_t steps = 0;
            for (auto it = x.range(bx.first, bx.second); it != x.end() && steps <= na + nb + 2; ++it, ++steps) out.push_back(hash_tup(*it));
            out.push_back(steps);
        }
        out.push_back(x.size_in_bytes());
        return out;
    };
    auto modify = [&](Idx &src) {
        if constexpr (std::is_copy_assignable_v<Idx>) { std::unique_ptr<Idx> other(build(1)); src = *other; }
    };
    run_copymove<Idx>(c, op, after, build, answers, modify, na * sizeof(T) + 64);
}

// ------------------------------------------------------------------------------------------------ dynamic
template<class V> V cm_value(uint64_t id) {
    if constexpr (std::is_same_v<V, std::string>) return "value-" + std::to_string(id);
    else if constexpr (std::is_pointer_v<V>) { static std::remove_pointer_t<V> pool[256]; return &pool[id % 256]; }
    else return V(id % 1000);
}

template<class K, class V, class PGMType>
void cm_dyn_case(Ctx &c) {
    using Idx = pgm::DynamicPGMIndex<K, V, PGMType>;
    int op, after;
    cm_pick(c, op, after);
    int base = c.rng.pick<int>({2, 4, 8});
    int bl = 1 + int(c.rng.below(2)), il = bl + 1;
    uint64_t keyspace = c.rng.pick<uint64_t>({50, 500, 5000});
    struct Op { bool ins; K k; uint64_t v; };
    auto gen_ops = [&](size_t n) { std::vector<Op> o; for (size_t i = 0; i < n; ++i) o.push_back({c.rng.chance(7, 10), K(c.rng.below(keyspace)), c.rng.below(1000)}); return o; };
    std::vector<Op> ha = gen_ops(1 + c.rng.below(600)), hb = gen_ops(1 + c.rng.below(600)), hm = gen_ops(1 + c.rng.below(200));
    std::vector<std::pair<K, V>> bulk;
    for (uint64_t k = 0; k < keyspace; k += 1 + c.rng.below(7)) bulk.emplace_back(K(k), cm_value<V>(k));
    c.traits = std::string(cm_op_names[op]) + "/" + cm_after_names[after];
    Hasher h; h.add(base); h.add(bl); h.add(op); h.add(after); h.add(ha.size()); h.add(hb.size()); h.add(c.rng.s);
    c.input_hash = h.h;
    auto apply = [&](Idx &x, const std::vector<Op> &ops) {
        for (auto &o : ops) { if (o.ins) x.insert_or_assign(o.k, cm_value<V>(o.v)); else x.erase(o.k); }
    };
    auto build = [&](int which) {
        Idx *x = c.case_idx % 2 ? new Idx(bulk.begin(), bulk.end(), uint8_t(base), uint8_t(bl), uint8_t(il)) : new Idx(uint8_t(base), uint8_t(bl), uint8_t(il));
        apply(*x, which ? hb : ha);
        return x;
    };
    auto hv = [&](const V &v) -> uint64_t {
        if constexpr (std::is_same_v<V, std::string>) return hash_str(v);
        else if constexpr (std::is_pointer_v<V>) return uint64_t(uintptr_t(v));
        else return uint64_t(v);
    };
    auto answers = [&](const Idx &x) {
        std::vector<uint64_t> out;
        for (uint64_t k = 0; k <= keyspace; k += 1 + keyspace / 97) {
            auto it = x.find(K(k));
            out.push_back(it == x.end() ? ~0ull : hv(it->second));
            auto lb = x.lower_bound(K(k));
            out.push_back(lb == x.end() ? ~0ull : uint64_t(lb->first));
        }
        size_t steps = 0;
        for (auto it = x.begin(); !(it == x.end()) && steps < 20000; ++it, ++steps) { out.push_back(uint64_t(it->first)); out.push_back(hv(it->second)); }
        auto rg = x.range(K(keyspace / 4), K(keyspace / 2));
        out.push_back(rg.size());
        out.push_back(x.size());
        return out;
    };
    auto modify = [&](Idx &src) { apply(src, hm); for (uint64_t k = 0; k < keyspace; k += 3) src.erase(K(k)); };
    run_copymove<Idx>(c, op, after, build, answers, modify, ha.size() * 16 + 64);
}

#define VF_CM_STATIC(NAME, K, ...) VF_REGISTER(std::string("cm/") + NAME, (&::vf::cm_static_case<K, __VA_ARGS__>), 1.0)
#define VF_CM_MULT(NAME, K, ...) VF_REGISTER(std::string("cm/") + NAME + "#mult", (&::vf::cm_mult_case<K, __VA_ARGS__>), 0.012)
#define VF_CM_CHAIN(NAME, K, ...) VF_REGISTER(std::string("cm/") + NAME + "#chain", (&::vf::cm_chain_case<K, __VA_ARGS__>), 0.016)
#define VF_CM_MD(D, T, E) VF_REGISTER(std::string("cm/md,d" #D ",") + ::vf::KT<T>::name() + ",e" #E, (&::vf::cm_md_case<D, T, E>), 1.0)
#define VF_CM_DYN(NAME, K, V, ...) VF_REGISTER(std::string("cm/dyn,") + NAME, (&::vf::cm_dyn_case<K, V, __VA_ARGS__>), 1.0)

} // namespace vf

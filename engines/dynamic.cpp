#include "dynamic.hpp"
namespace {
using namespace pgm;
#if VF_GROUP == 0
VF_DYN("u32,u32,pgm16", uint32_t, uint32_t, PGMIndex<uint32_t, 16>);
VF_DYN("u32,u32,pgm1er0", uint32_t, uint32_t, PGMIndex<uint32_t, 1, 0>);
VF_DYN_ENUM("u32,u32,pgm1er0", uint32_t, uint32_t, PGMIndex<uint32_t, 1, 0>);
#elif VF_GROUP == 1
VF_DYN("u64,u64,pgm2er1", uint64_t, uint64_t, PGMIndex<uint64_t, 2, 1>);
VF_DYN("i32,i32,pgm5", int32_t, int32_t, PGMIndex<int32_t, 5>);
VF_DYN("u64,f64,pgm8er2double", uint64_t, double, PGMIndex<uint64_t, 8, 2, double>);
#elif VF_GROUP == 2
VF_DYN("i64,u16,pgm64er64", int64_t, uint16_t, PGMIndex<int64_t, 64, 64>);
VF_DYN_ENUM("i64,u16,pgm2er1", int64_t, uint16_t, PGMIndex<int64_t, 2, 1>);
VF_DYN("u16,u16,pgm3", uint16_t, uint16_t, PGMIndex<uint16_t, 3>);
#else
VF_DYN("u32,ptr,pgm6er3", uint32_t, uint32_t *, PGMIndex<uint32_t, 6, 3>);
VF_DYN("u32,string,pgm4", uint32_t, std::string, PGMIndex<uint32_t, 4>);
VF_DYN_ENUM("u32,string,pgm4", uint32_t, std::string, PGMIndex<uint32_t, 4>);
#endif
}

// Engine `concurrent`: 2..16 reader threads issue query sequences against ONE shared object of every class, under
// ThreadSanitizer (guard off, no OpenMP). Oracle: zero race reports, and every thread's digest of (query, result) pairs
// equals the digest of the same sequence executed alone before and after (C16).
#pragma once

#include "pgm/pgm_index.hpp"
#include "pgm/pgm_index_variants.hpp"
#include "pgm/pgm_index_dynamic.hpp"
#include "vf_gen.hpp"
#include <atomic>
#include <memory>
#include <sched.h>
#include <map>
#include <thread>
#include <unistd.h>

namespace vf {


struct ConcStats {
    std::atomic<int> active{0};
    std::atomic<int> max_active{0};
    std::atomic<uint64_t> ops{0};
    void enter() {
        int a = ++active, m = max_active.load();
        while (a > m && !max_active.compare_exchange_weak(m, a)) {}
    }
    void leave() { --active; }
};

inline void set_affinity(int ncpu) {
    cpu_set_t set;
    CPU_ZERO(&set);
    long total = sysconf(_SC_NPROCESSORS_ONLN);
    for (int i = 0; i < (ncpu > 0 ? std::min<long>(ncpu, total) : total); ++i) CPU_SET(i, &set);
    sched_setaffinity(0, sizeof set, &set);
}

/// `seq(thread_seed, nops)` runs one thread's query sequence on the shared object and returns its digest.
template<class Seq>
void run_readers(Ctx &c, Seq seq, size_t nops, const char *what) {
    const int threads = c.given ? c.given->one<int>("threads", 4) : c.rng.pick<int>({2, 4, 8, 16});
    const bool pinned = c.case_idx % 2 == 1; // every other case on 2 cores: forces preemption inside calls
    set_affinity(pinned ? 2 : 0);
    std::vector<uint64_t> seeds(threads), alone_before(threads), alone_after(threads), together(threads);
    for (int t = 0; t < threads; ++t) seeds[t] = mix(c.rng.next(), t);
    ConcStats st;
    // Every other case the readers are the FIRST to query the freshly built / freshly updated object: a query path that
    // lazily initialises shared state on first use is only racy then (a sequential reference run beforehand would hide it).
    const bool readers_first = c.case_idx % 4 < 2;
    if (!readers_first)
        for (int t = 0; t < threads; ++t) alone_before[t] = seq(seeds[t], nops, st, false);
    int reports_before = g_tsan_hits;
    {
        std::atomic<int> ready{0};
        std::atomic<bool> go{false};
        std::vector<std::thread> th;
        for (int t = 0; t < threads; ++t)
            th.emplace_back([&, t] {
                ++ready;
                while (!go.load(std::memory_order_acquire)) sched_yield();
                together[t] = seq(seeds[t], nops, st, true);
            });
        while (ready.load() < threads) sched_yield();
        go.store(true, std::memory_order_release);
        for (auto &x : th) x.join();
    }
    for (int t = 0; t < threads; ++t) alone_after[t] = seq(seeds[t], nops, st, false);
    if (readers_first) // the sequential reference is taken afterwards, twice
        for (int t = 0; t < threads; ++t) alone_before[t] = seq(seeds[t], nops, st, false);
    c.count(readers_first ? "rounds_readers_query_first" : "rounds_sequential_reference_first");
    set_affinity(0);
    int reports = g_tsan_hits - reports_before;
    for (int t = 0; t < threads; ++t)
        if (together[t] != alone_before[t] || alone_after[t] != alone_before[t]) {
            c.violation("concurrent_result_differs", J().str("object", what).num("thread", t).num("threads", threads)
                                                         .boolean("differs_while_concurrent", together[t] != alone_before[t])
                                                         .boolean("differs_afterwards", alone_after[t] != alone_before[t]));
            break;
        }
    if (reports > 0)
        c.violation("tsan_report", J().str("object", what).num("reports", reports).num("threads", threads));
    c.count("reader_threads", threads);
    c.count(std::string("threads_") + std::to_string(threads));
    c.count("concurrent_ops", uint64_t(threads) * nops);
    c.count(pinned ? "rounds_on_2_cores" : "rounds_on_all_cores");
    c.maxc("max_simultaneously_active_readers", st.max_active.load());
    c.nontrivial = st.max_active.load() >= 2;
    if (c.want_sample())
        c.sample(J().str("object", what).num("threads", threads).num("ops_per_thread", nops).boolean("pinned_to_2_cores", pinned)
                     .num("max_simultaneously_active", st.max_active.load()).num("digest_thread0", alone_before[0]).num("tsan_reports", reports));
}

inline void jitter(Rng &r, bool concurrent) {
    if (!concurrent) return;
    uint64_t d = r.below(64);
    if (d == 0) sched_yield();
    else if (d < 4) for (volatile int i = 0; i < 200; ++i) {}
}

// ------------------------------------------------------------------------------------------------ static classes
template<class K, class Idx, bool Big = false>
void conc_static_case(Ctx &c) {
    std::string fam;
    std::vector<K> keys;
    if constexpr (Big) {
        // tens of thousands of segments: the succinct structures of the compressed / Elias-Fano variants are past their
        // small-size layouts (select directories with explicitly stored "long" blocks, multi-word rank tables)
        keys = gen_irregular_keys<K>(c.rng, 220000 + c.rng.below(c.thorough() ? 500000 : 150000));
        fam = "irregular_big";
        if constexpr (sizeof(K) == 8 && std::is_unsigned_v<K>) {
            if (c.rng.chance(1, 2)) {
                // ... as one dense burst inside a sparse universe: about 10^6 keys between two far outliers, so that more
                // than 10^5 segment keys share one Elias-Fano bucket (select directories with full "long" blocks)
                keys = gen_irregular_keys<K>(c.rng, 800000 + c.rng.below(c.thorough() ? 600000 : 200000));
                K top = keys.back();
                if (top < (K(1) << 49)) {
                    for (auto &x : keys) x += K(1) << 50;
                    keys.front() = 5;
                    keys.push_back(K(1) << 62);
                    fam = "irregular_big_burst_between_outliers";
                }
            }
        }
    } else
        keys = gen_keys<K>(c.rng, Idx::epsilon_value, c.thorough() ? 60000 : 8000, fam);
    if constexpr (std::is_floating_point_v<K>) {
        if (!float_domain_ok<K, float>(keys)) return;
    }
    std::vector<K> qs = gen_queries(keys, c.rng, 3000);
    if constexpr (Big)
        for (size_t i = keys.size() > 3000 ? keys.size() - 3000 : 0; i < keys.size(); i += 2) qs.push_back(keys[i]); // the top end
    Hasher h; h.add_vec(keys); c.input_hash = h.h;
    c.traits = fam;
    std::unique_ptr<Idx> idx(new Idx(keys.begin(), keys.end()));
    auto seq = [&](uint64_t seed, size_t nops, ConcStats &st, bool conc) {
        Rng r(seed), jr(seed ^ 0x5bd1e995u);
        Hasher d;
        if (conc) st.enter();
        for (size_t i = 0; i < nops; ++i) {
            const K &q = qs[r.below(qs.size())];
            auto a = idx->search(q);
            d.add(a.pos); d.add(a.lo); d.add(a.hi);
            jitter(jr, conc);
        }
        d.add(idx->segments_count()); d.add(idx->height()); d.add(idx->size_in_bytes());
        if (conc) st.leave();
        st.ops += nops;
        return d.h;
    };
    c.maxc("max_segments_of_shared_index", idx->segments_count());
    run_readers(c, seq, c.thorough() ? 20000 : 2000, c.cfg.name.c_str());
}

// ------------------------------------------------------------------------------------------------ mapped
template<class K, size_t Eps, size_t EpsRec>
void conc_mapped_case(Ctx &c) {
    using M = pgm::MappedPGMIndex<K, Eps, EpsRec>;
    std::string fam;
    std::vector<K> keys = gen_int_keys<K>(c.rng, Eps, 8000, fam);
    std::vector<K> qs = gen_queries(keys, c.rng, 3000);
    Hasher h; h.add_vec(keys); c.input_hash = h.h;
    c.traits = fam;
    std::string f = "conc." + std::to_string(getpid()) + ".map";
    {
        std::unique_ptr<M> created(new M(keys.begin(), keys.end(), f));
        std::unique_ptr<M> idx(c.case_idx % 2 ? new M(f) : nullptr);
        M &m = idx ? *idx : *created;
        auto seq = [&](uint64_t seed, size_t nops, ConcStats &st, bool conc) {
            Rng r(seed), jr(seed ^ 0x5bd1e995u);
            Hasher d;
            if (conc) st.enter();
            for (size_t i = 0; i < nops; ++i) {
                const K &q = qs[r.below(qs.size())];
                switch (r.below(4)) {
                    case 0: d.add(uint64_t(m.lower_bound(q) - m.begin())); break;
                    case 1: d.add(uint64_t(m.upper_bound(q) - m.begin())); break;
                    case 2: d.add(m.count(q)); break;
                    default: d.add(m.contains(q));
                }
                jitter(jr, conc);
            }
            d.add(m.size());
            if (conc) st.leave();
            st.ops += nops;
            return d.h;
        };
        run_readers(c, seq, c.thorough() ? 20000 : 2000, c.cfg.name.c_str());
    }
    unlink(f.c_str());
}

// ------------------------------------------------------------------------------------------------ multidimensional
template<class Tup, size_t... I> void tup_minmax(const Tup &a, const Tup &b, Tup &lo, Tup &hi, std::index_sequence<I...>) {
    ((std::get<I>(lo) = std::min(std::get<I>(a), std::get<I>(b)), std::get<I>(hi) = std::max(std::get<I>(a), std::get<I>(b))), ...);
}

template<uint8_t D, class T, size_t Eps>
void conc_md_case(Ctx &c) {
    using Idx = pgm::MultidimensionalPGMIndex<D, T, Eps>;
    using Tup = typename Idx::value_type;
    constexpr size_t fb = std::numeric_limits<T>::digits / D;
    const T maxc = T((T(1) << (fb - 1)) - 1);
    T u = std::min<T>(maxc, T(c.rng.pick<uint64_t>({15, 300, uint64_t(maxc)})));
    auto rnd = [&](Rng &r) { Tup t; std::apply([&](auto &...x) { ((x = T(r.below(uint64_t(u) + 1))), ...); }, t); return t; };
    size_t n = 1 + c.rng.below(3000);
    std::vector<Tup> pts;
    for (size_t i = 0; i < n; ++i) pts.push_back(rnd(c.rng));
    c.input_hash = mix(c.rng.s, n);
    c.traits = "md";
    std::unique_ptr<Idx> idx(new Idx(pts.begin(), pts.end()));
    auto hash_tup = [](const Tup &t) { uint64_t hh = 7; std::apply([&](auto &...x) { ((hh = mix(hh, uint64_t(x))), ...); }, t); return hh; };
    auto seq = [&](uint64_t seed, size_t nops, ConcStats &st, bool conc) {
        Rng r(seed), jr(seed ^ 0x5bd1e995u);
        Hasher d;
        if (conc) st.enter();
        for (size_t i = 0; i < nops; ++i) {
            if (r.chance(3, 4)) d.add(idx->contains(r.chance(1, 2) ? pts[r.below(n)] : rnd(r)));
            else {
                Tup a = rnd(r), b = rnd(r), lo, hi;
                // componentwise min / max
                lo = a; hi = b;
                tup_minmax(a, b, lo, hi, std::make_index_sequence<D>());
                size_t steps = 0;
                for (auto it = idx->range(lo, hi); it != idx->end() && steps <= n + 1; ++it, ++steps) d.add(hash_tup(*it));
                d.add(steps);
            }
            jitter(jr, conc);
        }
        if (conc) st.leave();
        st.ops += nops;
        return d.h;
    };
    run_readers(c, seq, c.thorough() ? 4000 : 400, c.cfg.name.c_str());
}

// ------------------------------------------------------------------------------------------------ dynamic
template<class V> V conc_value(uint64_t id) {
    if constexpr (std::is_same_v<V, std::string>) return "value-" + std::to_string(id);
    else if constexpr (std::is_pointer_v<V>) { static std::remove_pointer_t<V> pool[256]; return &pool[id % 256]; }
    else return V(id % 1000);
}

template<class K, class V, class PGMType>
void conc_dyn_case(Ctx &c) {
    using Idx = pgm::DynamicPGMIndex<K, V, PGMType>;
    int base = c.rng.pick<int>({2, 4, 8});
    int bl = 1 + int(c.rng.below(2)), il = bl + 1;
    uint64_t keyspace = c.rng.pick<uint64_t>({200, 2000, 20000});
    std::unique_ptr<Idx> x;
    if (c.rng.chance(1, 3)) { // bulk-loaded start: the last level owns an index from the first round on
        std::map<K, V> init;
        size_t n0 = 1 + c.rng.below(keyspace);
        for (size_t i = 0; i < n0; ++i) init[K(c.rng.below(keyspace))] = conc_value<V>(c.rng.below(1000));
        std::vector<std::pair<K, V>> v(init.begin(), init.end());
        x.reset(new Idx(v.begin(), v.end(), uint8_t(base), uint8_t(bl), uint8_t(il)));
        c.count("dyn_bulk_loaded_start");
    } else
        x.reset(new Idx(uint8_t(base), uint8_t(bl), uint8_t(il)));
    std::vector<K> hot; // keys at which the last update round left a long run of tombstones; constant while readers run
    c.input_hash = mix(c.rng.s, base * 100 + bl);
    c.traits = "dynamic";
    auto hv = [&](const V &v) -> uint64_t {
        if constexpr (std::is_same_v<V, std::string>) return hash_str(v);
        else if constexpr (std::is_pointer_v<V>) return uint64_t(uintptr_t(v));
        else return uint64_t(v);
    };
    auto seq = [&](uint64_t seed, size_t nops, ConcStats &st, bool conc) {
        Rng r(seed), jr(seed ^ 0x5bd1e995u);
        Hasher d;
        const Idx &cx = *x;
        if (conc) st.enter();
        for (size_t i = 0; i < nops; ++i) {
            K k = K(r.below(keyspace + 2));
            if (!hot.empty() && r.chance(1, 4)) k = K(hot[r.below(hot.size())] + K(r.below(6)));
            switch (r.below(7)) {
                case 0: { auto it = cx.find(k); d.add(it == cx.end() ? ~0ull : hv(it->second)); break; }
                case 1: d.add(cx.count(k)); break;
                case 2: { auto it = cx.lower_bound(k); d.add(it == cx.end() ? ~0ull : uint64_t(it->first)); break; }
                case 3: { auto rg = cx.range(k, K(k + K(r.below(50)))); d.add(rg.size()); for (auto &p : rg) d.add(uint64_t(p.first)); break; }
                case 4: { // iterate a few steps from a lower bound
                    auto it = cx.lower_bound(k);
                    for (int s = 0; s < 20 && !(it == cx.end()); ++s, ++it) { d.add(uint64_t(it->first)); d.add(hv(it->second)); }
                    break;
                }
                case 5: { auto it = cx.begin(); d.add(it == cx.end() ? ~0ull : uint64_t(it->first)); break; }
                default: if (r.chance(1, 40)) d.add(cx.size()); else d.add(cx.empty());
            }
            jitter(jr, conc);
        }
        if (conc) st.leave();
        st.ops += nops;
        return d.h;
    };
    // several internal layouts: the container is updated between rounds, with the readers joined
    int rounds = c.thorough() ? 4 : 2;
    for (int round = 0; round < rounds; ++round) {
        size_t nupd = 50 + c.rng.below(1500);
        // update shapes: random mix; a contiguous block inserted, pushed down by further inserts, then erased (a long run of
        // tombstones shadowing live entries of a deeper level); an erase-only burst; a block erased at the very front
        const int shape = int(c.rng.below(4));
        hot.clear();
        if (shape == 1 || shape == 3) {
            size_t len = std::min<uint64_t>(keyspace - 1, 70 + c.rng.below(700));
            K b = shape == 3 ? K(0) : K(c.rng.below(keyspace - len));
            for (size_t i = 0; i < len; ++i) x->insert_or_assign(K(b + K(i)), conc_value<V>(i));
            for (size_t i = 0; i < nupd; ++i) x->insert_or_assign(K(c.rng.below(keyspace)), conc_value<V>(c.rng.below(1000)));
            for (size_t i = 0; i < len; ++i) x->erase(K(b + K(i)));
            hot.push_back(b); hot.push_back(K(b + K(len / 2))); if (b > 3) hot.push_back(K(b - 3));
            c.count(shape == 3 ? "dyn_rounds_front_block_erased" : "dyn_rounds_block_erased");
            c.maxc("dyn_longest_erased_block", len);
        } else if (shape == 2) {
            for (size_t i = 0; i < nupd; ++i) x->insert_or_assign(K(c.rng.below(keyspace)), conc_value<V>(c.rng.below(1000)));
            size_t burst = 30 + c.rng.below(400);
            K b = K(c.rng.below(keyspace));
            for (size_t i = 0; i < burst; ++i) x->erase(K((uint64_t(b) + i * (1 + c.rng.below(2))) % keyspace));
            hot.push_back(b);
            c.count("dyn_rounds_erase_burst");
        } else {
            for (size_t i = 0; i < nupd; ++i) {
                K k = K(c.rng.below(keyspace));
                if (c.rng.chance(7, 10)) x->insert_or_assign(k, conc_value<V>(c.rng.below(1000)));
                else x->erase(k);
            }
            c.count("dyn_rounds_random_mix");
        }
        run_readers(c, seq, c.thorough() ? 3000 : 500, c.cfg.name.c_str());
    }
}

#define VF_CONC_STATIC(NAME, K, ...) VF_REGISTER(std::string("conc/") + NAME, (&::vf::conc_static_case<K, __VA_ARGS__>), 1.0)
#define VF_CONC_STATIC_BIG(NAME, K, ...) VF_REGISTER(std::string("conc/") + NAME + "#big", (&::vf::conc_static_case<K, __VA_ARGS__, true>), 0.2)
#define VF_CONC_MAPPED(K, E, ER) VF_REGISTER(std::string("conc/mapped,") + ::vf::KT<K>::name(), (&::vf::conc_mapped_case<K, E, ER>), 1.0)
#define VF_CONC_MD(D, T, E) VF_REGISTER(std::string("conc/md,d" #D ",") + ::vf::KT<T>::name(), (&::vf::conc_md_case<D, T, E>), 1.0)
#define VF_CONC_DYN(NAME, K, V, ...) VF_REGISTER(std::string("conc/dyn,") + NAME, (&::vf::conc_dyn_case<K, V, __VA_ARGS__>), 1.0)

} // namespace vf

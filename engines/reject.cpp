#include "reject.hpp"
namespace {
using namespace pgm;
#if VF_GROUP == 0
VF_REJ_STATIC("pgm,u64", uint64_t, PGMIndex<uint64_t, 4, 2>);
VF_REJ_STATIC("pgm,i32", int32_t, PGMIndex<int32_t, 8, 0>);
VF_REJ_STATIC("pgm,f64", double, PGMIndex<double, 16, 4>);
VF_REJ_STATIC("pgm,f32", float, PGMIndex<float, 2, 1, double>);
VF_REJ_STATIC("pgm,u8", uint8_t, PGMIndex<uint8_t, 1, 1>);
VF_REJ_BUILDER(uint64_t);
VF_REJ_BUILDER(int32_t);
VF_REJ_BUILDER(double);
#elif VF_GROUP == 1
VF_REJ_STATIC("comp,u32", uint32_t, CompressedPGMIndex<uint32_t, 8, 4>);
VF_REJ_STATIC("comp,u64,er0", uint64_t, CompressedPGMIndex<uint64_t, 2, 0>);
VF_REJ_STATIC("bucket,u32", uint32_t, BucketingPGMIndex<uint32_t, 4, 128, 32>);
VF_REJ_STATIC("ef,u64", uint64_t, EliasFanoPGMIndex<uint64_t, 8>);
VF_REJ_STATIC("ef,u16", uint16_t, EliasFanoPGMIndex<uint16_t, 2>);
VF_REJ_MAPPED(int64_t, 4, 4);
VF_REJ_MAPPED(uint32_t, 2, 0);
#else
VF_REJ_DYN("u32,u32", uint32_t, uint32_t, PGMIndex<uint32_t, 16>);
VF_REJ_DYN("i64,u16", int64_t, uint16_t, PGMIndex<int64_t, 4, 0>);
VF_REJ_MD(2, uint32_t, 4);
VF_REJ_MD(3, uint64_t, 8);
VF_REJ_MD(4, uint64_t, 2);
#endif
}

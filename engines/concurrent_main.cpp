#include "vf.hpp"
int main(int argc, char **argv) { return vf::vf_main(argc, argv, "concurrent"); }

#include "vf.hpp"
#include <atomic>
namespace vf { std::atomic<int> g_tsan_reports{0}; }
// ThreadSanitizer calls this weak hook for every report it is about to print
extern "C" void __tsan_on_report(void *) { ++vf::g_tsan_reports; }
int main(int argc, char **argv) { return vf::vf_main(argc, argv, "concurrent"); }

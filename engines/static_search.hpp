// Engine `static_search`: PGMIndex / CompressedPGMIndex / BucketingPGMIndex / EliasFanoPGMIndex against the search
// contract (C01 C02 C07 C08 C09 C10, C04(e) level sizes, C17 memory monitor).
#pragma once

#include <omp.h>
#include "pgm/pgm_index.hpp"
#ifdef VF_WITH_VARIANTS
#include "pgm/pgm_index_variants.hpp"
#endif
#include "vf_search.hpp"
#include "vf_life.hpp"
#include <memory>

extern int vf_fake_procs; // returned by the interposed omp_get_num_procs() (static_main.cpp)

namespace pgm_verif {
struct Access {
    template<class I> static const auto &segments(const I &i) { return i.segments; }
    template<class I> static const auto &levels_offsets(const I &i) { return i.levels_offsets; }
    template<class I> static size_t n(const I &i) { return i.n; }
    template<class I> static auto first_key(const I &i) { return i.first_key; }
};
} // namespace pgm_verif

namespace vf {

template<class K> struct StaticCase {
    std::vector<K> keys;
    std::vector<K> queries;
    int threads = 1;
    int procs = 32; ///< value reported by the interposed omp_get_num_procs(): chunks = min(procs, threads, 20)
    int lifecycle = -1; ///< how the queried object came to be (see object_lifecycle); -1: derived from the input hash
    std::string family;
    bool chunked = false;
    uint64_t giant_n = 0, giant_base = 0, giant_stride = 0; ///< "giant_one_segment": keys = base + i * stride (not stored in witnesses)
    bool query_all = false; ///< every key is queried (cases whose faults are confined to a few hundred unpredictable keys)
    std::vector<size_t> seams; // indices of interest (chunk boundaries) for chunked cases
};

/// Large arrays for the chunked builder: runs of equal keys starting / ending / straddling every chunk boundary.
template<class K>
StaticCase<K> gen_seam_case(Rng &r, size_t eps, size_t maxn) {
    using D = UDom<K>;
    StaticCase<K> sc;
    sc.chunked = true;
    sc.threads = 1 + int(r.below(20));
    if (r.chance(1, 3)) sc.threads = r.pick<int>({2, 3, 7, 16, 19, 20});
    if (r.chance(1, 4)) sc.procs = 2 + int(r.below(22));
    size_t n = (size_t(1) << 15) + r.below(std::max<size_t>(maxn, (1u << 15) + 1) - (1u << 15));
    if (r.chance(1, 4)) n = (size_t(1) << 15) + r.below(64);
    sc.family = "seam";
    const uint64_t R = D::R;
    // gaps: key[i] = key[i-1] + g[i]
    std::vector<uint64_t> g(n, 0);
    int base = int(r.below(4));
    uint64_t budget = R / 2;
    uint64_t mean = std::max<uint64_t>(1, budget / n);
    for (size_t i = 1; i < n; ++i) {
        switch (base) {
            case 0: g[i] = r.below(3); break;                                    // dense, many duplicates
            case 1: g[i] = 1 + r.below(std::min<uint64_t>(mean, 8)); break;      // near-linear
            case 2: g[i] = r.chance(1, 50) ? r.below(std::min<uint64_t>(mean * 20, R / 64) + 1) : r.below(2); break; // bursty
            default: g[i] = r.below(std::min<uint64_t>(2 * mean, 1u << 20) + 1); break; // uniform-ish
        }
    }
    size_t t = size_t(std::min(std::min(sc.threads, sc.procs), 20));
    size_t chunk = n / t;
    for (size_t i = 1; i < t && chunk > 0; ++i) {
        size_t s = i * chunk;
        sc.seams.push_back(s);
        int mode = int(r.below(8));
        size_t a = 0, b = 0; // run covers [s-a, s+b)
        auto small = [&]() -> size_t { return r.pick<size_t>({1, 2, 3, eps, eps + 1, 2 * eps + 2, 2 * eps + 3}); };
        switch (mode) {
            case 0: continue;                       // leave this seam alone
            case 1: a = small(); b = small(); break; // straddles
            case 2: a = 0; b = small() + 1; break;   // starts exactly at the seam
            case 3: a = small() + 1; b = 0; break;   // ends exactly at the seam
            case 4: a = small(); b = chunk + small(); break; // covers the whole next chunk
            case 5: a = 1; b = 1; break;             // two equal keys across the seam
            case 6: a = small(); b = 2 * chunk + 1; break; // covers two chunks
            default: a = r.below(chunk) + 1; b = r.below(chunk) + 1; break;
        }
        size_t lo = s >= a ? s - a : 0, hi = std::min(n, s + b);
        for (size_t j = lo + 1; j < hi; ++j) g[j] = 0;
        if (hi < n) g[hi] = r.pick<uint64_t>({1, 2, 3, 100, mean * 4 + 2});
        if (lo > 0 && r.chance(1, 2)) g[lo] = r.pick<uint64_t>({1, 2, 50});
    }
    uint64_t cur = r.chance(1, 2) ? 0 : r.below(R / 4);
    sc.keys.resize(n);
    for (size_t i = 0; i < n; ++i) {
        cur = sat_add(cur, g[i], R);
        sc.keys[i] = D::to_key(cur);
    }
    return sc;
}

/// Band-tight UPPER levels: the data is a sequence of "units" (each forced to be one leaf segment: dense units alternate
/// with sparse ones), grouped so that the leaf-segment keys form a staircase in (key, segment index) space - runs of about
/// 2*eps_rec consecutive segments close together, then a jump. Upper-level models then sit on the +-eps_rec band, which is
/// where the routing window and the binary search are exercised at their limits.
template<class K>
StaticCase<K> gen_nested_staircase(Rng &r, size_t eps, size_t eps_rec, size_t max_keys) {
    using D = UDom<K>;
    StaticCase<K> sc;
    sc.family = "nested_staircase";
    sc.threads = 1;
    const uint64_t R = D::R;
    size_t unit = 2 * eps + 3 + r.below(4);
    std::vector<uint64_t> u;
    uint64_t cur = r.chance(1, 2) ? 0 : r.below(R / 4);
    bool dense = true;
    while (u.size() + unit < max_keys && cur < R - (uint64_t(1) << 20)) {
        size_t G = std::max<int64_t>(2, int64_t(2 * eps_rec) + int64_t(r.below(7)) - 3); // units per group
        if (r.chance(1, 8)) G = 1 + r.below(4 * eps_rec + 4);
        for (size_t g = 0; g < G && u.size() + unit < max_keys; ++g) {
            uint64_t step = dense ? 1 : 40 + r.below(20);
            for (size_t j = 0; j < unit; ++j) {
                u.push_back(cur);
                cur = sat_add(cur, step, R);
            }
            cur = sat_add(cur, dense ? 3 : 1, R);
            dense = !dense;
        }
        // the jump between groups: proportional to the group's key span so that the segment-key staircase has tall steps
        uint64_t span = uint64_t(G) * unit * 30;
        cur = sat_add(cur, span * r.pick<uint64_t>({1, 2, 5, 50}) + r.below(span + 1), R);
    }
    if (u.empty()) u.push_back(0);
    for (auto x : u) sc.keys.push_back(D::to_key(std::min(x, R)));
    return sc;
}

/// More than 2^24 keys: positions no longer fit a float's mantissa (the library keeps the intercept in an integer for
/// exactly this reason). One or two such cases per class and tier; >= 32-bit keys only.
template<class K>
StaticCase<K> gen_huge_case(Rng &r, size_t eps) {
    using D = UDom<K>;
    StaticCase<K> sc;
    sc.chunked = true;
    sc.threads = r.pick<int>({1, 4, 16});
    size_t n = (size_t(1) << 24) + (size_t(1) << 20) + r.below(size_t(1) << 22);
    const uint64_t R = D::R;
    std::vector<uint64_t> u(n);
    int fam = int(r.below(3));
    if (fam == 0) {
        sc.family = "huge_uniform";
        for (auto &x : u) x = (R == UINT64_MAX - 1) ? std::min<uint64_t>(r.next(), R) : r.below(R + 1);
        std::sort(u.begin(), u.end());
    } else if (fam == 1) {
        sc.family = "huge_noisy_progression";
        uint64_t cur = r.below(1000), maxstep = std::max<uint64_t>(1, std::min<uint64_t>(R / n, 64));
        for (auto &x : u) { x = cur; cur = sat_add(cur, r.below(maxstep + 1), R); }
    } else {
        sc.family = "huge_staircase";
        uint64_t cur = 0;
        size_t i = 0;
        while (i < n) {
            size_t L = 2 * eps + r.below(4);
            for (size_t j = 0; j <= L && i < n; ++j) { u[i++] = cur; cur = sat_add(cur, 1, R); }
            cur = sat_add(cur, r.pick<uint64_t>({1, 2, eps + 1, 100}), R);
        }
    }
    sc.keys.resize(n);
    for (size_t i = 0; i < n; ++i) sc.keys[i] = D::to_key(u[i]);
    size_t chunk = n / size_t(std::max(sc.threads, 1));
    for (int i = 1; i < sc.threads; ++i) sc.seams.push_back(size_t(i) * chunk);
    return sc;
}

/// Bounded-exhaustive case: the case index selects one of ALL sorted arrays of length 1..7 over 9 consecutive key values
/// placed at lowest(), in the middle of the type and ending at max-1; every key value around them is queried.
constexpr SmallScope kSmallScope{9, 7};
template<class K>
bool gen_enum_case(Ctx &c, StaticCase<K> &sc) {
    using D = UDom<K>;
    std::vector<unsigned> offs;
    unsigned bs = 0;
    if (!kSmallScope.get(c.case_idx, offs, bs)) return false;
    const uint64_t R = D::R, U = kSmallScope.U;
    uint64_t base = bs == 0 ? 0 : bs == 1 ? R / 2 : R - (U - 1);
    sc.family = "enum_small_scope";
    sc.threads = 1;
    for (auto o : offs) sc.keys.push_back(D::to_key(base + o));
    uint64_t qlo = base >= 2 ? base - 2 : 0, qhi = std::min<uint64_t>(R, base + U + 1);
    for (uint64_t q = qlo; q <= qhi; ++q) sc.queries.push_back(D::to_key(q));
    sc.queries.push_back(D::to_key(0));
    sc.queries.push_back(D::to_key(R));
    sc.queries.push_back(D::to_key(R / 3));
    return true;
}

/// A few million keys with very uneven density (the case index selects the family): irregular keys around ONE giant run of
/// consecutive integers, irregular keys only (hundreds of thousands of segments), irregular keys around one giant run of
/// EQUAL keys. Succinct structures (rank / select directories, Elias-Fano buckets) change representation with density.
template<class K>
StaticCase<K> gen_big_case(Ctx &c, size_t eps) {
    using D = UDom<K>;
    Rng &r = c.rng;
    StaticCase<K> sc;
    sc.chunked = true;
    sc.threads = r.pick<int>({1, 3, 16});
    const uint64_t R = D::R;
    int fam = int(c.case_idx % 4);
    // total size log-uniform in [400k, 3.5M]; the irregular head takes 3..50 %, the tail 5..20 %, the run the rest
    size_t total = size_t(400000.0 * std::pow(8.75, r.unit()));
    size_t head = size_t(total * (0.03 + 0.47 * r.unit())), tail = size_t(total * (0.05 + 0.15 * r.unit()));
    size_t run = total - head - tail;
    std::vector<uint64_t> u;
    u.reserve(total + 8);
    uint64_t cur = r.below(1000);
    const int maxsh = r.pick<int>({10, 17, 23}); // how heavy the tail of the gap distribution is (short vs longer segments)
    auto irregular = [&](size_t cnt) {
        for (size_t i = 0; i < cnt; ++i) {
            u.push_back(cur);
            cur = sat_add(cur, uint64_t(1) << r.below(uint64_t(maxsh) + 1), R);
        }
    };
    irregular(head);
    if (fam == 0) {
        sc.family = "big_giant_consecutive_run";
        for (size_t i = 0; i < run; ++i) { u.push_back(cur); cur = sat_add(cur, 1, R); }
    } else if (fam == 1) {
        sc.family = "big_irregular";
        irregular(run / 2);
    } else if (fam == 3) {
        // a dense burst of very many short segments inside a sparse universe: hundreds of thousands of segment keys fall
        // into a handful of Elias-Fano buckets (the mirror image of the giant run)
        sc.family = "big_dense_burst";
        uint64_t far = std::min<uint64_t>(R / (head + tail + 8), uint64_t(1) << r.pick<int>({30, 36, 40}));
        u.clear();
        cur = r.below(1000);
        for (size_t i = 0; i < head; ++i) { u.push_back(cur); cur = sat_add(cur, 1 + r.below(far), R); }
        for (size_t i = 0; i < run; ++i) { u.push_back(cur); cur = sat_add(cur, uint64_t(1) << r.below(9), R); }
        for (size_t i = 0; i < tail; ++i) { u.push_back(cur); cur = sat_add(cur, 1 + r.below(far), R); }
        tail = 0;
    } else {
        sc.family = "big_giant_equal_run";
        for (size_t i = 0; i < run; ++i) u.push_back(cur);
        cur = sat_add(cur, 1 + r.below(1000), R);
    }
    irregular(tail);
    (void) eps;
    sc.keys.resize(u.size());
    for (size_t i = 0; i < u.size(); ++i) sc.keys[i] = D::to_key(std::min(u[i], R));
    size_t chunk = sc.keys.size() / size_t(std::max(sc.threads, 1));
    for (int i = 1; i < sc.threads; ++i) sc.seams.push_back(size_t(i) * chunk);
    sc.seams.push_back(head);
    sc.seams.push_back(u.size() - tail);
    return sc;
}

/// Hundreds of thousands of keys with a segment every few keys (gen_irregular_keys), built with many threads and with every
/// key queried: the UPPER levels are then large enough (>= 2^15 entries) to be built in up to 20 chunks themselves, wherever
/// the class chooses to do that, and whatever goes wrong around one of those cuts - a few hundred keys - is looked at.
template<class K>
StaticCase<K> gen_many_segments_case(Ctx &c) {
    StaticCase<K> sc;
    sc.chunked = true;
    sc.threads = c.rng.pick<int>({2, 7, 13, 16, 19, 20});
    sc.keys = gen_irregular_keys<K>(c.rng, 340000 + c.rng.below(c.thorough() ? 700000 : 260000));
    sc.family = "many_segments";
    sc.query_all = true;
    size_t chunk = sc.keys.size() / size_t(sc.threads);
    for (int i = 1; i < sc.threads; ++i) sc.seams.push_back(size_t(i) * chunk);
    return sc;
}

/// 36-44 million equally spaced keys built with one thread: ONE segment far longer than 2^25 positions. Equal spacing keeps
/// the exact slope a dyadic rational times 1/stride, so whatever precision the implementation drops on the way (slope type,
/// offset arithmetic) is the only source of error - and at this length a relative error of 2^-24 is several positions.
template<class K>
void fill_giant(StaticCase<K> &sc) {
    using D = UDom<K>;
    sc.keys.resize(sc.giant_n);
    for (uint64_t i = 0; i < sc.giant_n; ++i) sc.keys[i] = D::to_key(sc.giant_base + i * sc.giant_stride);
    sc.family = "giant_one_segment";
    sc.threads = 1;
    sc.lifecycle = 0;
    sc.queries.clear();
    const size_t n = sc.keys.size();
    for (size_t i = 0; i < n; i += 89) sc.queries.push_back(sc.keys[i]);
    for (size_t i = n > 20000 ? n - 20000 : 0; i < n; ++i) sc.queries.push_back(sc.keys[i]);
    for (size_t i = 1; i < n; i += 7919) sc.queries.push_back(key_pred(sc.keys[i]));
}
template<class K>
StaticCase<K> gen_giant_case(Ctx &c, uint64_t stride) {
    StaticCase<K> sc;
    sc.giant_n = 36000000 + c.rng.below(8000000);
    sc.giant_base = c.rng.below(1000);
    sc.giant_stride = stride;
    fill_giant(sc);
    return sc;
}

template<class K>
StaticCase<K> make_static_case(Ctx &c, size_t eps, bool chunked, size_t maxn_small, size_t maxn_big, size_t eps_rec = 0) {
    StaticCase<K> sc;
    if constexpr (std::is_integral_v<K>) {
        if (c.given && c.given->one<uint64_t>("giant_n", 0) > 0) {
            sc.giant_n = c.given->one<uint64_t>("giant_n", 0);
            sc.giant_base = c.given->one<uint64_t>("giant_base", 0);
            sc.giant_stride = c.given->one<uint64_t>("giant_stride", 1);
            fill_giant(sc);
            return sc;
        }
    }
    if (c.given) {
        sc.keys = c.given->vec<K>("keys");
        sc.queries = c.given->vec<K>("queries");
        sc.threads = c.given->one<int>("threads", 1);
        sc.procs = c.given->one<int>("procs", 32);
        sc.lifecycle = c.given->one<int>("lifecycle", 0);
        sc.query_all = c.given->one<int>("query_all", 0) != 0;
        sc.family = c.given->one_str("family", "spec");
        sc.chunked = sc.keys.size() >= (1u << 15) && sc.threads > 1;
        sc.seams = c.given->vec<size_t>("seams");
        return sc;
    }
    if (chunked) {
        if constexpr (std::is_integral_v<K> && sizeof(K) == 8) {
            if (eps >= 64 && c.rng.chance(1, 3)) {
                // one segment of 10^5 keys or more whose hulls outgrow their reservation (see gen_gentle_curve); few chunks,
                // so that a chunk still holds that many points
                sc.chunked = true;
                sc.threads = 1 + int(c.rng.below(3));
                size_t n = 150000 + c.rng.below(c.thorough() ? 450000 : 250000);
                sc.keys = gen_gentle_curve<K>(c.rng, n, c.rng.chance(1, 2) ? 500 + c.rng.below(4000) : 0);
                sc.family = "big_gentle_curve";
                size_t chunk = sc.keys.size() / size_t(sc.threads);
                for (int i = 1; i < sc.threads; ++i) sc.seams.push_back(size_t(i) * chunk);
                return sc;
            }
        }
        if constexpr (std::is_integral_v<K>) {
            if (sizeof(K) >= 4 && c.rng.chance(3, 4))
                return gen_seam_case<K>(c.rng, eps, maxn_big);
        }
        sc.chunked = true;
        sc.threads = 1 + int(c.rng.below(20));
        size_t n = (size_t(1) << 15) + c.rng.below(std::max<size_t>(maxn_big, (1u << 15) + 1) - (1u << 15));
        sc.keys = gen_keys<K>(c.rng, eps, n, sc.family, n);
        sc.family = "big_" + sc.family;
        size_t chunk = n / size_t(sc.threads);
        for (int i = 1; i < sc.threads; ++i) sc.seams.push_back(size_t(i) * chunk);
        return sc;
    }
    if constexpr (std::is_integral_v<K>) {
        if (eps_rec >= 1 && sizeof(K) >= 4 && !c.prop("C17") && c.rng.chance(1, eps_rec >= 16 ? 6 : 20)) {
            size_t budget = std::min<size_t>((2 * eps + 6) * (2 * eps_rec + 4) * (6 + c.rng.below(20)), c.thorough() ? 400000 : 120000);
            return gen_nested_staircase<K>(c.rng, eps, eps_rec, std::max<size_t>(budget, 2000));
        }
    }
    sc.threads = 1;
    size_t maxn = maxn_small;
    if (c.prop("C17") && c.rng.chance(1, 2)) maxn = 3;
    sc.keys = gen_keys<K>(c.rng, eps, maxn, sc.family);
    return sc;
}

template<class K> Spec static_spec(const Ctx &c, const StaticCase<K> &sc, const std::vector<K> &queries_run) {
    Spec s;
    s.set_one("config", c.cfg.name);
    s.set_one("case", c.case_idx);
    s.set_one("family", sc.family);
    s.set_one("threads", sc.threads);
    s.set_one("procs", sc.procs);
    s.set_one("lifecycle", sc.lifecycle);
    s.set_one("query_all", sc.query_all ? 1 : 0);
    if (sc.giant_n) { // regenerated from three numbers
        s.set_one("giant_n", sc.giant_n);
        s.set_one("giant_base", sc.giant_base);
        s.set_one("giant_stride", sc.giant_stride);
        return s;
    }
    s.set_vec("keys", sc.keys);
    if (queries_run.size() <= 2000) s.set_vec("queries", queries_run);
    if (!sc.seams.empty()) s.set_vec("seams", sc.seams);
    return s;
}

inline void set_threads(int t, int procs = 32) {
    vf_fake_procs = procs;
    omp_set_num_threads(t);
}

/// number of construction chunks the library may use for n elements: min(procs, max_threads, 20), 1 below 2^15 keys
inline size_t chunks_for(size_t n, int threads, int procs = 32) {
    int p = std::min(std::min(procs, threads), 20);
    if (p <= 1 || n < (size_t(1) << 15)) return 1;
    return size_t(p);
}

struct NoExtra {
    template<class Idx, class K> void after_build(Ctx &, const Idx &, const StaticCase<K> &) {}
    template<class Idx, class K> void before_query(Ctx &, const Idx &, const K &) {}
    template<class Idx, class K, class R> void after_query(Ctx &, const Idx &, const StaticCase<K> &, const K &, const R &) {}
    template<class Idx> bool nontrivial(const Idx &) { return true; }
    /// an exception that is a documented, legitimate outcome for this case (not a violation)
    template<class K> bool tolerate(const std::exception &, const StaticCase<K> &) { return false; }
    template<class K> const char *exception_region(const StaticCase<K> &) { return ""; }
};

/// The common body: build, query, judge.  `Which` selects the oracle clauses:
///   'P' present keys only (C01), 'L' all queries, lower-bound clause (C02), 'B' both + width for every query
///   (variants: C08/C09/C10), 'N' none (C07 / C17: only `extra` and the memory monitor judge)
template<class K, class Idx, size_t Eps, class Extra>
void run_static(Ctx &c, StaticCase<K> &sc, char which, Extra &extra) {
    using Floating = float;
    (void) sizeof(Floating);
    std::vector<K> queries_run;
    c.dumper = [&]() { return static_spec(c, sc, queries_run); };
    c.traits = sc.family;
    Hasher h;
    h.add_vec(sc.keys);
    h.add(uint64_t(sc.threads));
    h.add(uint64_t(sc.procs));
    c.input_hash = h.h;
    const size_t n = sc.keys.size();
    if (n == 0) return;
    c.predump();

    set_threads(sc.threads, sc.procs);
    Idx *idx = nullptr;
    try {
        idx = new Idx(sc.keys.begin(), sc.keys.end());
    } catch (const std::exception &e) {
        set_threads(1);
        if (extra.tolerate(e, sc)) {
            c.count("documented_rejections");
            return;
        }
        c.violation("unexpected_exception",
                    J().str("what", e.what()).str("type", typeid(e).name()).str("during", "construction").num("n", n),
                    extra.exception_region(sc));
        return;
    }
    std::unique_ptr<Idx> guard(idx);
    // The object that answers the queries is not always the one the constructor produced: an index held by value is
    // copied, moved, assigned and relocated by containers, and remains "the index over this sequence". Half of the cases
    // query the constructed object, the others a copy / moved-to / assigned-to object whose source has been destroyed.
    if (sc.lifecycle < 0) sc.lifecycle = n > (size_t(1) << 22) ? 0 : int(mix(c.input_hash, 0x11fec7c1e) % 8);
    guard = object_lifecycle(c, std::move(guard), sc.lifecycle); // still under the case's OpenMP settings, like the build
    idx = guard.get();
    set_threads(1);
    extra.after_build(c, *idx, sc);

    // queries
    bool present_only = which == 'P';
    size_t cap = sc.chunked ? 12000 : 4000;
    if (sc.keys.size() > (size_t(1) << 20)) cap = 60000;
    if (sc.keys.size() > (size_t(1) << 24)) cap = (c.prop("C07") || c.prop("C04") || c.prop("C17")) ? 20000 : 400000;
    std::vector<K> qs = sc.queries.empty() ? gen_queries(sc.keys, c.rng, sc.query_all ? 4000 : cap, present_only) : sc.queries;
    if (sc.query_all && sc.queries.empty()) {
        for (size_t i = 0; i < n; ++i)
            if (i == 0 || sc.keys[i] != sc.keys[i - 1]) {
                qs.push_back(sc.keys[i]);
                if (!present_only && i % 4 == 0 && sc.keys[i] < key_maxvalid<K>()) qs.push_back(key_succ(sc.keys[i]));
            }
        c.count("cases_with_every_key_queried");
    }
    if (sc.queries.empty() && !present_only) {
        for (size_t s : sc.seams) { // everything around the chunk boundaries
            for (size_t j = (s >= 3 ? s - 3 : 0); j < std::min(n, s + 4); ++j) {
                qs.push_back(sc.keys[j]);
                if (sc.keys[j] < key_maxvalid<K>()) qs.push_back(key_succ(sc.keys[j]));
                if (sc.keys[j] > KT<K>::lowest()) qs.push_back(key_pred(sc.keys[j]));
            }
            // end of the run that is in progress at the seam
            size_t e = s;
            while (e < n && sc.keys[e] == sc.keys[s]) ++e;
            if (e < n) {
                qs.push_back(sc.keys[e]);
                if (sc.keys[e] > KT<K>::lowest()) qs.push_back(key_pred(sc.keys[e]));
                if (sc.keys[e - 1] < key_maxvalid<K>()) qs.push_back(key_succ(sc.keys[e - 1]));
            }
        }
    } else if (sc.queries.empty() && present_only) {
        for (size_t s : sc.seams)
            for (size_t j = (s >= 3 ? s - 3 : 0); j < std::min(n, s + 4); ++j) qs.push_back(sc.keys[j]);
    }
    queries_run = qs;

    SearchCounters sc_cnt;
    size_t distinct = 1;
    for (size_t i = 1; i < n; ++i) distinct += sc.keys[i] != sc.keys[i - 1];
    size_t segs = idx->segments_count();
    for (const K &q : qs) {
        if (q == KT<K>::reserved()) continue;
        if (present_only && !std::binary_search(sc.keys.begin(), sc.keys.end(), q)) continue;
        classify_query(sc.keys, q, sc_cnt);
        extra.before_query(c, *idx, q);
        auto r = idx->search(q);
        extra.after_query(c, *idx, sc, q, r);
        sc_cnt.width_max = std::max<uint64_t>(sc_cnt.width_max, r.hi >= r.lo ? r.hi - r.lo : 0);
        size_t expect = 0;
        const char *bad = nullptr;
        if (which == 'P') bad = judge_search(sc.keys, q, r, Eps, true, false, false, expect);
        else if (which == 'L') bad = judge_search(sc.keys, q, r, Eps, false, true, false, expect);
        else if (which == 'B') bad = judge_search(sc.keys, q, r, Eps, true, true, true, expect);
        if (bad)
            c.violation(bad, J().num("q", q).num("lo", r.lo).num("hi", r.hi).num("pos", r.pos).num("expected_lower_bound", expect)
                                 .num("n", n).num("eps", Eps).num("segments", segs).num("threads", sc.threads));
    }
    c.count("queries", sc_cnt.queries);
    c.count("present_queries", sc_cnt.present);
    c.count("absent_queries", sc_cnt.absent);
    c.count("far_queries", sc_cnt.far);
    c.count("after_run_queries", sc_cnt.after_run);
    c.count("below_first_queries", sc_cnt.below_first);
    c.count("above_last_queries", sc_cnt.above_last);
    c.count("gap_queries", sc_cnt.gap);
    c.count("segments", segs);
    c.count("keys", n);
    c.maxc("max_n", n);
    c.maxc("max_segments", segs);
    c.maxc("max_height", idx->height());
    c.maxc("max_range_width", sc_cnt.width_max);
    if (idx->height() >= 3) c.count("cases_height_ge3");
    if (sc.chunked) {
        c.count("chunked_cases");
        c.count("chunks_" + std::to_string(chunks_for(n, sc.threads, sc.procs)));
        c.count("seams", sc.seams.size());
    }
    c.count("family_" + sc.family);
    bool dup = distinct < n;
    c.nontrivial = distinct >= 2 && (segs >= 2 || dup) && sc_cnt.queries > 0 && extra.nontrivial(*idx);
    if (which != 'P' && sc_cnt.absent == 0) c.nontrivial = false;
    if (c.want_sample())
        c.sample(J().num("n", n).num("segments", segs).num("height", idx->height()).num("queries", sc_cnt.queries));
}

/// Residue sweep: ~70 indexes over prefixes of ONE irregular array of 150k..450k keys, each prefix a few keys shorter than
/// the previous one, queried at the top end of the key range. The number of segments (and with it the length of every
/// succinct directory derived from it) changes by about one per step, so the sweep passes through all residues modulo 64,
/// and often a multiple of 4096 - the places where block-wise directories have their last-block special cases.
template<class T, class = void> struct HasWl : std::false_type {};
template<class T> struct HasWl<T, std::void_t<decltype(std::declval<const T &>().wl()), decltype(std::declval<const T &>().high_zeros())>> : std::true_type {};

template<class K, class Idx, size_t Eps>
void run_sweep(Ctx &c, char which) {
    using D = UDom<K>;
    Rng &r = c.rng;
    const uint64_t R = D::R;
    size_t n0 = 150000 + r.below(c.thorough() ? 600000 : 300000);
    if (HasWl<Idx>::value) n0 += 250000; // the select directories over an Elias-Fano high vector change construction at 100000 bits
    std::vector<K> master(n0);
    {
        uint64_t cur = r.below(1000);
        const int maxsh = r.pick<int>({12, 20, 26});
        for (auto &x : master) { x = D::to_key(std::min(cur, R)); cur = sat_add(cur, uint64_t(1) << r.below(uint64_t(maxsh) + 1), R); }
    }
    c.traits = "prefix_residue_sweep";
    Hasher h; h.add(n0); h.add(r.s);
    c.input_hash = h.h;
    size_t len = n0;
    std::vector<size_t> lens;
    c.dumper = [&]() {
        Spec s;
        s.set_one("config", c.cfg.name); s.set_one("case", c.case_idx); s.set_one("note", "master array regenerated from seed");
        s.set_vec("prefix_lengths", lens);
        return s;
    };
    c.predump();
    const int steps = c.thorough() ? 140 : 70;
    uint64_t queries = 0, segs_total = 0, mod64 = 0, c_universe_steps = 0;
    set_threads(1);
    for (int k = 0; k < steps && len > 1000; ++k) {
        lens.push_back(len);
        std::vector<K> keys(master.begin(), master.begin() + len);
        std::unique_ptr<Idx> idx(new Idx(keys.begin(), keys.end()));
        size_t segs = idx->segments_count();
        segs_total += segs;
        if (segs % 64 == 0) ++mod64;
        std::vector<K> qs;
        for (size_t i = len > 250 ? len - 250 : 0; i < len; ++i) {
            qs.push_back(keys[i]);
            if (keys[i] < key_maxvalid<K>()) qs.push_back(key_succ(keys[i]));
            if (keys[i] > KT<K>::lowest()) qs.push_back(key_pred(keys[i]));
        }
        for (int i = 0; i < 30; ++i) qs.push_back(keys[r.below(len)]);
        qs.push_back(key_maxvalid<K>());
        qs.push_back(KT<K>::lowest());
        if (keys.back() < key_maxvalid<K>()) qs.push_back(key_mid(keys.back(), key_maxvalid<K>()));
        for (const K &q : qs) {
            if (which == 'P' && !std::binary_search(keys.begin(), keys.end(), q)) continue;
            auto res = idx->search(q);
            ++queries;
            size_t expect = 0;
            const char *bad = nullptr;
            if (which == 'P') bad = judge_search(keys, q, res, Eps, true, false, false, expect);
            else if (which == 'L') bad = judge_search(keys, q, res, Eps, false, true, false, expect);
            else if (which == 'B') bad = judge_search(keys, q, res, Eps, true, true, true, expect);
            if (bad) {
                c.violation(bad, J().num("q", q).num("lo", res.lo).num("hi", res.hi).num("pos", res.pos).num("expected_lower_bound", expect)
                                     .num("n", len).num("eps", Eps).num("segments", segs).num("sweep_step", k));
                break;
            }
        }
        if (c.violations_in_case >= 3) break;
        len -= 1 + r.below(9);
    }
    // Universe sweep (indexes that expose the low-bit width of an Elias-Fano code, i.e. EfProbe): only the LAST key moves, in
    // units of one Elias-Fano bucket, so that the number of buckets crosses the next multiple of 4096 (and every residue
    // modulo 64 on the way) - the block size of the select directories over the high bit vector.
    if constexpr (HasWl<Idx>::value) {
        size_t n1 = n0;
        std::vector<K> keys(master.begin(), master.begin() + n1);
        uint64_t wl = 0, usize = 0;
        {
            std::unique_ptr<Idx> probe(new Idx(keys.begin(), keys.end()));
            wl = probe->wl();
            usize = probe->ef_size();
        }
        uint64_t unit = uint64_t(1) << std::min<uint64_t>(wl, 62);
        uint64_t buckets = (usize >> wl) + 1;
        uint64_t to_boundary = 4096 - (buckets % 4096);
        // the last 2*Eps+4 keys move as one block of consecutive integers: too many ranks at one place to be absorbed by the
        // segment before them, so the block starts the last segment and its position decides the Elias-Fano universe
        const size_t B = std::min<size_t>(2 * Eps + 4, n1 / 2);
        uint64_t base_last = D::to_u(keys[n1 - B - 1]) + 1;
        uint64_t start = to_boundary > 70 ? to_boundary - 70 : 0;
        uint64_t off = start;
        int usteps = c.thorough() ? 120 : 60;
        for (int k = 0; k < usteps && c.violations_in_case < 3; ++k) {
            if (base_last + B + 2 >= R || off > (R - base_last - B - 2) / std::max<uint64_t>(unit, 1)) break; // no room left in the key type
            for (size_t j = 0; j < B; ++j) keys[n1 - B + j] = D::to_key(base_last + off * unit + j);
            std::unique_ptr<Idx> idx(new Idx(keys.begin(), keys.end()));
            for (size_t i = n1 > 60 ? n1 - 60 : 0; i < n1; ++i) {
                for (K q : {keys[i], K(keys[i] > KT<K>::lowest() ? key_pred(keys[i]) : keys[i]), K(keys[i] < key_maxvalid<K>() ? key_succ(keys[i]) : keys[i])}) {
                    if (which == 'P' && !std::binary_search(keys.begin(), keys.end(), q)) continue;
                    auto res = idx->search(q);
                    ++queries;
                    size_t expect = 0;
                    const char *bad = which == 'B' ? judge_search(keys, q, res, Eps, true, true, true, expect) : nullptr;
                    if (bad) {
                        c.violation(bad, J().num("q", q).num("lo", res.lo).num("hi", res.hi).num("pos", res.pos).num("expected_lower_bound", expect)
                                             .num("n", n1).num("eps", Eps).num("universe_sweep_step", k).num("last_key_offset_in_buckets", off));
                        break;
                    }
                }
            }
            ++c_universe_steps;
            {
                size_t z = idx->high_zeros(), hb = idx->high_bits();
                size_t d = (4096 - z % 4096) % 4096, spare = (64 - hb % 64) % 64;
                if (getenv("VF_DEBUG_SWEEP")) fprintf(stderr, "usweep last=%llu base_last=%llu efsize=%zu k=%d off=%llu wl=%zu z=%zu d=%zu hb=%zu spare=%zu (probe wl=%llu buckets=%llu to_boundary=%llu)\n", (unsigned long long) D::to_u(keys.back()), (unsigned long long) base_last, idx->ef_size(), k, (unsigned long long) off, idx->wl(), z, d, hb, spare, (unsigned long long) wl, (unsigned long long) buckets, (unsigned long long) to_boundary);
                if (d <= 62) c.count("universe_sweep_bucket_count_within_62_below_multiple_of_4096");
                if (d <= 62 && spare >= d + 1 && hb >= 100000) c.count("universe_sweep_last_block_geometry");
                c.maxc("universe_sweep_max_high_bits", hb);
            }
            off += 1 + r.below(3);
        }
        c.count("universe_sweep_indexes_built", c_universe_steps);

        // Threshold sweep: prefix lengths around the one at which the high bit vector reaches 100000 bits - below that size
        // the succinct library builds its select directories by another routine, without the explicitly stored long blocks.
        // ONE long-lived object is copy- / move-assigned every new index, walking down across the threshold and up again, so
        // that whatever an assignment leaves behind from the previous, differently built content is queried.
        if constexpr (std::is_copy_assignable_v<Idx> && std::is_move_assignable_v<Idx> && std::is_default_constructible_v<Idx>) {
            auto hb_of = [&](size_t len) { Idx p(master.begin(), master.begin() + len); return p.high_bits(); };
            size_t lo = 2000, hi = n0;
            if (hb_of(hi) >= 100000 && hb_of(lo) < 100000) {
                while (hi - lo > 1) { size_t mid = lo + (hi - lo) / 2; (hb_of(mid) >= 100000 ? hi : lo) = mid; }
                const size_t L = hi; // the shortest prefix with >= 100000 high bits
                std::vector<size_t> walk;
                const int half = c.thorough() ? 40 : 22;
                for (int i = half; i >= -half; --i) walk.push_back(size_t(std::max<long long>(2000, (long long) L + i * 12)));
                for (int i = -half; i <= half; ++i) walk.push_back(size_t(std::max<long long>(2000, (long long) L + i * 12 + 5)));
                Idx holder;
                uint64_t crossings = 0, tsteps = 0;
                bool prev_big = false;
                for (size_t wi = 0; wi < walk.size() && c.violations_in_case < 3; ++wi) {
                    size_t len = std::min(walk[wi], n0);
                    std::vector<K> pk(master.begin(), master.begin() + len);
                    {
                        std::unique_ptr<Idx> fresh(new Idx(pk.begin(), pk.end()));
                        if (wi % 3 == 1) holder = *fresh;
                        else holder = std::move(*fresh);
                    }
                    bool big = holder.high_bits() >= 100000;
                    if (wi > 0 && big != prev_big) ++crossings;
                    prev_big = big;
                    ++tsteps;
                    std::vector<K> qs;
                    for (size_t i = len > 120 ? len - 120 : 0; i < len; ++i) {
                        qs.push_back(pk[i]);
                        if (pk[i] < key_maxvalid<K>()) qs.push_back(key_succ(pk[i]));
                    }
                    for (int i = 0; i < 60; ++i) qs.push_back(pk[r.below(len)]);
                    qs.push_back(key_maxvalid<K>());
                    for (const K &q : qs) {
                        if (which == 'P' && !std::binary_search(pk.begin(), pk.end(), q)) continue;
                        auto res = holder.search(q);
                        ++queries;
                        size_t expect = 0;
                        const char *bad = which == 'B' ? judge_search(pk, q, res, Eps, true, true, true, expect) : nullptr;
                        if (bad) {
                            c.violation(bad, J().num("q", q).num("lo", res.lo).num("hi", res.hi).num("pos", res.pos).num("expected_lower_bound", expect)
                                                 .num("n", len).num("eps", Eps).num("threshold_sweep_step", wi).num("high_bits", holder.high_bits())
                                                 .str("object", wi % 3 == 1 ? "copy-assigned over the previous index" : "move-assigned over the previous index"));
                            break;
                        }
                    }
                }
                c.count("threshold_sweep_indexes_assigned", tsteps);
                c.count("threshold_sweep_crossings_of_100000_high_bits", crossings);
            } else
                c.count("threshold_sweep_not_applicable");
        }
    }
    c.count("sweep_indexes_built", lens.size());
    c.count("queries", queries);
    c.count("segments", segs_total);
    c.count("sweep_segment_counts_multiple_of_64", mod64);
    c.count("family_prefix_residue_sweep");
    c.maxc("max_n", n0);
    c.nontrivial = true;
    if (c.want_sample()) c.sample(J().num("first_length", n0).num("indexes", lens.size()).num("avg_segments", segs_total / std::max<size_t>(1, lens.size())));
}

// ---------------------------------------------------------------------------------------------- PGMIndex specifics
/// C07: routing trace (hook H2) judged per query; C04(e)/C07: level-size recurrence and height.
template<size_t EpsRec> struct PgmExtra : NoExtra {
    bool routing = false; ///< judge H2 records (C07)
    bool levels = false;  ///< judge level sizes (C04 / C07)
    uint64_t records = 0, max_dev = 0, max_cmp = 0;
    size_t height = 0;
    std::vector<bool> level_sorted; ///< per level: are the non-sentinel entries sorted by key (see U3 in DESIGN.md)

    template<class Idx, class K> void after_build(Ctx &c, const Idx &idx, const StaticCase<K> &sc) {
        height = idx.height();
        {
            auto &off0 = pgm_verif::Access::levels_offsets(idx);
            auto &segs0 = pgm_verif::Access::segments(idx);
            level_sorted.assign(off0.size() > 0 ? off0.size() - 1 : 0, true);
            for (size_t l = 0; l + 1 < off0.size(); ++l)
                for (size_t i = off0[l] + 1; i + 1 < off0[l + 1]; ++i)
                    if (segs0[i].key < segs0[i - 1].key) { level_sorted[l] = false; break; }
        }
        if (!levels) return;
        auto &off = pgm_verif::Access::levels_offsets(idx);
        const size_t n = sc.keys.size();
        size_t eps = Idx::epsilon_value;
        size_t cb = chunks_for(n, sc.threads, sc.procs);
        size_t m0 = idx.segments_count();
        // bottom level: segments_count() <= floor(n/(2eps+1)) + c + 1
        if (m0 > n / (2 * eps + 1) + cb + 1)
            c.violation("segments_count_bound", J().num("segments", m0).num("n", n).num("eps", eps).num("chunks", cb));
        c.maxf("max_segments_over_bound", double(m0) / double(n / (2 * eps + 1) + cb + 1));
        if (EpsRec == 0) {
            if (idx.height() != 1)
                c.violation("height_bound", J().num("height", idx.height()).num("expected", 1));
            return;
        }
        // upper levels: m_{l+1} <= floor(m_l/(2 eps_rec + 1)) + c_l + 1, counting every non-sentinel entry
        size_t L = off.size() - 1; // number of levels
        std::vector<size_t> m(L);
        for (size_t l = 0; l < L; ++l) m[l] = off[l + 1] - off[l] - 1;
        for (size_t l = 0; l + 1 < L; ++l) {
            size_t cl = chunks_for(m[l], sc.threads, sc.procs);
            size_t bound = m[l] / (2 * EpsRec + 1) + cl + 1;
            if (m[l + 1] > bound)
                c.violation("level_size_bound", J().num("level", l + 1).num("size", m[l + 1]).num("below", m[l]).num("bound", bound));
        }
        // The top level has no level above it that could bound where the responsible segment is: whatever locates it has to
        // look at the top level's entries themselves. With more real entries than the per-level budget, queries that belong
        // to the last ones cannot be served within 2*eps_rec+3 inspections by a scan (the implementation uses the first
        // top-level entry as the root without any search, so it always keeps exactly one). One entry may be the closing entry.
        if (m[L - 1] > 2 * EpsRec + 3 + 1)
            c.violation("top_level_exceeds_scan_budget", J().num("top_level_entries", m[L - 1]).num("budget", 2 * EpsRec + 3).num("height", L).num("segments", m[0]));
        if (m[L - 1] > 2) c.count("cases_top_level_with_several_segments");
        // height: logarithmic. Simulate the bound until it stalls (<= 3 entries), allow 2 more levels.
        size_t u = m[0], hb = 1;
        while (u > 3 && hb < 64) {
            u = u / (2 * EpsRec + 1) + chunks_for(u, sc.threads, sc.procs) + 1;
            ++hb;
        }
        hb += 2;
        if (L > hb)
            c.violation("height_bound", J().num("height", L).num("bound", hb).num("segments", m[0]));
        c.count("levels_checked", L);
    }

    template<class Idx, class K> void before_query(Ctx &, const Idx &, const K &) {
        if (!routing) return;
        auto &t = pgm_verif::route_trace();
        t.levels.clear();
        t.armed = true;
    }

    template<class Idx, class K, class R>
    void after_query(Ctx &c, const Idx &idx, const StaticCase<K> &, const K &q, const R &) {
        if (!routing) return;
        auto &t = pgm_verif::route_trace();
        t.armed = false;
        if (EpsRec == 0) return;
        auto &off = pgm_verif::Access::levels_offsets(idx);
        auto &segs = pgm_verif::Access::segments(idx);
        K k = std::max<K>(pgm_verif::Access::first_key(idx), q);
        size_t L = off.size() - 1;
        if (t.levels.size() != L - 1) {
            c.violation("routing_trace_length", J().num("records", t.levels.size()).num("height", L).num("q", q));
            return;
        }
        for (auto &rec : t.levels) {
            size_t l = size_t(rec.level);
            size_t cnt = off[l + 1] - off[l] - 1; // entries except the sentinel
            auto lb = segs.begin() + off[l];
            // independent recomputation of the responsible entry. Levels are sorted except, for data ending within a few
            // units of the reserved value, for the trailing closing entries (build() keys the "keys > last" entry of EVERY
            // level with last_data_key + 1, while the closing points of upper levels cascade +1 per level): there both the
            // forward-scan answer (first entry whose successor is > k) and the rightmost entry <= k are legitimate.
            size_t t_scan = 0, t_right = 0;
            if (l < level_sorted.size() && level_sorted[l]) { // sorted level (the normal case): one binary search
                size_t ub = size_t(std::upper_bound(lb, lb + cnt, k) - lb);
                t_scan = t_right = ub == 0 ? 0 : ub - 1;
            } else {
                while (t_scan + 1 < cnt && !(k < lb[t_scan + 1].key)) ++t_scan;
                for (size_t i = cnt; i-- > 0;)
                    if (!(k < lb[i].key)) { t_right = i; break; }
            }
            ++records;
            size_t tix = rec.found;
            if (rec.found != t_right) {
                // accept any entry between the two candidates that is itself <= k and whose successor is > k
                bool ok = rec.found < cnt && !(k < lb[rec.found].key) && (rec.found + 1 >= cnt || k < lb[rec.found + 1].key) && t_scan != t_right;
                if (!ok) {
                    c.violation("routing_hook_mismatch", J().num("level", l).num("found", rec.found).num("true", t_right).num("true_by_forward_scan", t_scan).num("q", q));
                    tix = t_right;
                } else
                    c.count("routing_records_in_unsorted_tail");
            }
            size_t dev = tix > rec.predicted ? tix - rec.predicted : rec.predicted - tix;
            max_dev = std::max<uint64_t>(max_dev, dev);
            if (dev > EpsRec + 1)
                c.violation("routing_deviation", J().num("level", l).num("predicted", rec.predicted).num("true", tix)
                                                     .num("eps_rec", EpsRec).num("q", q).num("level_size", cnt));
            if (!rec.binary) {
                max_cmp = std::max<uint64_t>(max_cmp, rec.compared);
                if (rec.compared > 2 * EpsRec + 3)
                    c.violation("routing_scan_length", J().num("level", l).num("compared", rec.compared).num("bound", 2 * EpsRec + 3).num("q", q));
            } else {
                size_t wlo = rec.predicted > EpsRec + 1 ? rec.predicted - (EpsRec + 1) : 0;
                size_t whi = rec.predicted + EpsRec + 2;
                if (rec.window_lo < wlo || rec.window_hi > whi || rec.window_hi > cnt + 1 || rec.window_hi - rec.window_lo > 2 * EpsRec + 3)
                    c.violation("routing_window", J().num("level", l).num("window_lo", rec.window_lo).num("window_hi", rec.window_hi)
                                                      .num("predicted", rec.predicted).num("q", q));
            }
        }
    }
    template<class Idx> bool nontrivial(const Idx &idx) { return !(routing) || idx.height() >= 2; }
    void flush(Ctx &c) {
        c.count("routing_records", records);
        c.maxc("max_routing_deviation", max_dev);
        c.maxc("max_keys_compared", max_cmp);
    }
};

template<class K, size_t Eps, size_t EpsRec, class Floating, int Mode> // Mode: 0 small, 1 chunked, 2 huge (> 2^24 keys), 3 enum, 4 big, 5 sweep
void pgm_case(Ctx &c) {
    using Idx = pgm::PGMIndex<K, Eps, EpsRec, Floating>;
    if constexpr (Mode == 5 && std::is_integral_v<K>) {
        if (!c.given) {
            run_sweep<K, Idx, Eps>(c, c.prop("C01") ? 'P' : c.prop("C02") ? 'L' : 'N');
            return;
        }
    }
    constexpr bool Chunked = Mode == 1;
    size_t big = c.thorough() ? (size_t(1) << 18) : (size_t(1) << 16);
    if (c.thorough() && c.case_idx % 16 == 15) big = size_t(1) << 20;
    StaticCase<K> sc;
    if constexpr (Mode == 2 && std::is_integral_v<K>) sc = c.given ? make_static_case<K>(c, Eps, true, 5000, big, EpsRec) : gen_huge_case<K>(c.rng, Eps);
    else if constexpr (Mode == 6 && std::is_integral_v<K>) sc = c.given ? make_static_case<K>(c, Eps, true, 5000, big, EpsRec) : gen_giant_case<K>(c, sizeof(K) == 8 ? 11 : 1);
    else if constexpr (Mode == 4 && std::is_integral_v<K>) sc = c.given ? make_static_case<K>(c, Eps, true, 5000, big, EpsRec) : gen_big_case<K>(c, Eps);
    else if constexpr (Mode == 3 && std::is_integral_v<K>) {
        if (c.given) sc = make_static_case<K>(c, Eps, false, 5000, big, EpsRec);
        else if (!gen_enum_case<K>(c, sc)) { c.count("enum_cases_past_the_end"); return; }
        c.count("enum_cases");
        c.maxc("enum_space_per_configuration", kSmallScope.total());
    } else sc = make_static_case<K>(c, Eps, Chunked, c.prop("C07") ? 20000 : 5000, big, EpsRec);
    if constexpr (std::is_floating_point_v<K>) {
        if (!float_domain_ok<K, Floating>(sc.keys)) {
            c.count("float_domain_rejected");
            Hasher h;
            h.add_vec(sc.keys);
            c.input_hash = h.h;
            return;
        }
    }
    PgmExtra<EpsRec> ex;
    char which = 'N';
    if (c.prop("C01")) which = 'P';
    else if (c.prop("C02")) which = 'L';
    else if (c.prop("C07")) { ex.routing = true; ex.levels = true; which = 'N'; }
    else if (c.prop("C04")) { ex.levels = true; which = 'N'; }
    run_static<K, Idx, Eps>(c, sc, which, ex);
    ex.flush(c);
}

#define VF_PGM(K, E, ER, F)                                                                                            \
    VF_REGISTER(std::string("pgm/") + ::vf::KT<K>::name() + ",e" #E ",er" #ER "," #F "#small",                        \
                (&::vf::pgm_case<K, E, ER, F, 0>), 1.0);                                                           \
    VF_REGISTER(std::string("pgm/") + ::vf::KT<K>::name() + ",e" #E ",er" #ER "," #F "#chunk",                        \
                (&::vf::pgm_case<K, E, ER, F, 1>), 0.02)
#define VF_PGM_ENUM(K, E, ER, F)                                                                                       \
    VF_REGISTER(std::string("pgm/") + ::vf::KT<K>::name() + ",e" #E ",er" #ER "," #F "#enum",                         \
                (&::vf::pgm_case<K, E, ER, F, 3>), 5.8)
#define VF_PGM_BIG(K, E, ER, F)                                                                                        \
    VF_REGISTER(std::string("pgm/") + ::vf::KT<K>::name() + ",e" #E ",er" #ER "," #F "#big",                          \
                (&::vf::pgm_case<K, E, ER, F, 4>), 0.0051)
#define VF_PGM_SWEEP(K, E, ER, F)                                                                                      \
    VF_REGISTER(std::string("pgm/") + ::vf::KT<K>::name() + ",e" #E ",er" #ER "," #F "#sweep",                        \
                (&::vf::pgm_case<K, E, ER, F, 5>), 0.0003)
#define VF_PGM_GIANT(K, E, ER, F)                                                                                      \
    VF_REGISTER(std::string("pgm/") + ::vf::KT<K>::name() + ",e" #E ",er" #ER "," #F "#giant",                        \
                (&::vf::pgm_case<K, E, ER, F, 6>), 0.00001)
/* several lengths per run: which way a narrowed slope rounds depends on the low-order bits of (n-1+2*eps)/(n-1) */
#define VF_PGM_GIANTS(K, E, ER, F)                                                                                     \
    VF_REGISTER(std::string("pgm/") + ::vf::KT<K>::name() + ",e" #E ",er" #ER "," #F "#giant",                        \
                (&::vf::pgm_case<K, E, ER, F, 6>), 0.008)
#define VF_PGM_HUGE(K, E, ER, F)                                                                                       \
    VF_REGISTER(std::string("pgm/") + ::vf::KT<K>::name() + ",e" #E ",er" #ER "," #F "#huge",                         \
                (&::vf::pgm_case<K, E, ER, F, 2>), 0.0003)

} // namespace vf

// Engine `cinterface`: c-interface/cpgm.cpp is compiled from the tree; this harness calls it only through cpgm.h (C18,
// the C part of C20, C17).
#include "cpgm.h"
#include "vf_search.hpp"
#include <map>

namespace vf {

#define VF_C_TRAITS(type, T)                                                                                           \
    struct CT_##type {                                                                                                 \
        using K = T;                                                                                                   \
        using pair_t = pair_##type##_t;                                                                                \
        static constexpr const char *name = #type;                                                                     \
        static auto create(const T *a, size_t n, size_t e) { return pgm_index_##type##_create(a, n, e); }              \
        static void destroy(pgm_index_##type##_t *p) { pgm_index_##type##_destroy(p); }                                \
        static approx_pos_t search(pgm_index_##type##_t *p, T q) { return pgm_index_##type##_search(p, q); }           \
        static size_t size_in_bytes(pgm_index_##type##_t *p) { return pgm_index_##type##_size_in_bytes(p); }           \
        using dyn_t = dynamic_pgm_index_##type##_t;                                                                    \
        static dyn_t *dcreate(const pair_t *a, size_t n) { return dynamic_pgm_index_##type##_create(a, n); }           \
        static dyn_t *dcreate_empty() { return dynamic_pgm_index_##type##_create_empty(); }                            \
        static void ddestroy(dyn_t *p) { dynamic_pgm_index_##type##_destroy(p); }                                      \
        static size_t dsize(dyn_t *p) { return dynamic_pgm_index_##type##_size(p); }                                   \
        static size_t dbytes(dyn_t *p) { return dynamic_pgm_index_##type##_size_in_bytes(p) + dynamic_pgm_index_##type##_index_size_in_bytes(p); } \
        static void dinsert(dyn_t *p, T k, T v) { dynamic_pgm_index_##type##_insert_or_assign(p, k, v); }              \
        static void derase(dyn_t *p, T k) { dynamic_pgm_index_##type##_erase(p, k); }                                  \
        static bool dfind(dyn_t *p, T k, T *v) { return dynamic_pgm_index_##type##_find(p, k, v); }                    \
        static void *dbegin(dyn_t *p) { return dynamic_pgm_index_##type##_begin(p); }                                  \
        static void *dlower(dyn_t *p, T q) { return dynamic_pgm_index_##type##_lower_bound(p, q); }                    \
        static bool dnext(dyn_t *p, void *it, T *k, T *v) { return dynamic_pgm_index_##type##_iterator_next(p, it, k, v); } \
        static void ditdestroy(void *it) { dynamic_pgm_index_##type##_iterator_destroy(it); }                          \
    };
VF_C_TRAITS(int32, int32_t)
VF_C_TRAITS(int64, int64_t)
VF_C_TRAITS(uint32, uint32_t)
VF_C_TRAITS(uint64, uint64_t)

template<class CT> void c_static_case(Ctx &c) {
    using K = typename CT::K;
    std::vector<K> keys, queries;
    std::string family;
    size_t eps;
    if (c.given) {
        keys = c.given->template vec<K>("keys");
        queries = c.given->template vec<K>("queries");
        eps = c.given->template one<size_t>("eps", 1);
        family = "spec";
    } else {
        eps = c.rng.pick<size_t>({1, 1, 2, 3, 7, 64, 1000, 4096});
        size_t force_n = c.case_idx % 16 == 15 ? c.rng.pick<size_t>({32768, 40000, 65537}) : 0; // chunked, multi-threaded build
        keys = gen_int_keys<K>(c.rng, eps, c.thorough() && c.case_idx % 20 == 19 ? 200000 : 5000, family, force_n);
    }
    std::vector<K> run;
    c.dumper = [&]() {
        Spec s;
        s.set_one("config", c.cfg.name); s.set_one("case", c.case_idx); s.set_one("eps", eps); s.set_one("family", family);
        s.set_vec("keys", keys);
        if (run.size() < 3000) s.set_vec("queries", run);
        return s;
    };
    c.traits = family + ",eps=" + std::to_string(eps);
    Hasher h; h.add_vec(keys); h.add(eps);
    c.input_hash = h.h;
    c.predump();
    const size_t n = keys.size();
    const bool c20 = c.prop("C20");
    if (c20 || c.case_idx % 25 == 0) {
        // data containing the reserved value: create must return NULL
        auto bad = keys;
        bad.push_back(std::numeric_limits<K>::max());
        auto *p = CT::create(bad.data(), bad.size(), eps);
        c.count("reserved_value_creates");
        if (p) {
            c.violation("c_create_accepted_reserved_value", J().num("n", bad.size()).num("eps", eps));
            CT::destroy(p);
        }
        if (c20) { c.nontrivial = true; return; }
    }
    auto *idx = CT::create(keys.data(), n, eps);
    if (!idx) {
        c.violation("c_create_returned_null", J().num("n", n).num("eps", eps));
        return;
    }
    run = queries.empty() ? gen_queries(keys, c.rng, 3000) : queries;
    SearchCounters sc;
    const bool judge = !c.prop("C17");
    for (const K &q : run) {
        if (q == std::numeric_limits<K>::max()) continue;
        classify_query(keys, q, sc);
        approx_pos_t r = CT::search(idx, q);
        size_t expect = 0;
        const char *bad = judge ? judge_search(keys, q, r, eps, true, true, true, expect) : nullptr;
        if (bad)
            c.violation(bad, J().num("q", q).num("lo", r.lo).num("hi", r.hi).num("pos", r.pos).num("expected_lower_bound", expect).num("n", n).num("eps", eps));
    }
    size_t bytes = CT::size_in_bytes(idx);
    CT::destroy(idx);
    c.count("queries", sc.queries);
    c.count("absent_queries", sc.absent);
    c.count("far_queries", sc.far);
    c.count("eps_" + std::to_string(eps));
    c.maxc("max_n", n);
    size_t distinct = 1;
    for (size_t i = 1; i < n; ++i) distinct += keys[i] != keys[i - 1];
    c.nontrivial = distinct > 2 * eps + 2 && eps != 1 && sc.absent > 0;
    if (c.want_sample()) c.sample(J().num("n", n).num("eps", eps).num("size_in_bytes", bytes));
}

template<class CT> void c_dynamic_case(Ctx &c) {
    using K = typename CT::K;
    using D = UDom<K>;
    struct Op { char t; K k; K v; };
    std::vector<typename CT::pair_t> bulk;
    std::vector<Op> ops;
    auto &r = c.rng;
    uint64_t keyspace = r.pick<uint64_t>({30, 300, 3000, 100000});
    uint64_t kbase = r.pick<uint64_t>({0, D::R - keyspace, (D::R - keyspace) / 2});
    auto key = [&](uint64_t i) { return D::to_key(kbase + std::min(i, keyspace)); };
    auto val = [&]() { return K(r.below(1000)); }; // never the reserved maximum
    const bool giant = !c.given && sizeof(K) == 8 && c.args.geti("giant", 0) == 0 && c.case_idx % 97 == 13;
    if (giant) {
        // > 8^7 pairs: the only way, through the C interface, to get a level that owns a PGM-index (default index level);
        // runs of consecutive erased keys right at lower_bound positions, a few bounded walks
        size_t nb = 2100000 + r.below(200000);
        uint64_t cur = kbase = r.chance(1, 2) ? 0 : D::R / 2;
        bulk.reserve(nb);
        for (size_t i = 0; i < nb; ++i) { bulk.push_back({D::to_key(cur), val()}); cur += 1 + r.below(3); }
        for (int run = 0; run < 4; ++run) {
            size_t start = 1000 + r.below(nb - 5000), len = 18 + r.below(50);
            for (size_t i = start; i < start + len; ++i) ops.push_back({'E', bulk[i].first, 0});
            ops.push_back({'G', bulk[start].first, 0});                 // lower_bound at the first erased key
            ops.push_back({'G', K(bulk[start - 1].first + 1), 0});      // ... and in the gap before it
            ops.push_back({'F', bulk[start + len / 2].first, 0});
            ops.push_back({'F', bulk[start + len].first, 0});
            ops.push_back({'I', bulk[start + 1].first, val()});         // re-insert one of them
            ops.push_back({'G', bulk[start].first, 0});
        }
        ops.push_back({'G', std::numeric_limits<K>::lowest(), 0});
        ops.push_back({'S', 0, 0});
    } else if (c.given) {
        auto b = c.given->template vec<K>("bulk_kv");
        for (size_t i = 0; i + 1 < b.size(); i += 2) bulk.push_back({b[i], b[i + 1]});
        auto &o = c.given->get("ops");
        for (auto &t : o) { auto p1 = t.find(':', 2); ops.push_back({t[0], fromstr<K>(t.substr(2, p1 - 2)), fromstr<K>(t.substr(p1 + 1))}); }
    } else {
        bool use_bulk = r.chance(1, 2);
        // deep histories: the C interface fixes base 8 (buffer 585, level 4 = 4096, level 5 = 32768): a bulk load of more
        // than 4096 pairs lands in level 5, ~4100 further distinct inserts make level 4 overflow into it, so that keys live
        // in three levels at once (buffer / level 4 / level 5) when tombstones are merged down
        bool deep = r.chance(1, 6);
        if (deep) {
            keyspace = r.pick<uint64_t>({12000, 20000, 40000});
            kbase = r.pick<uint64_t>({0, D::R - keyspace, (D::R - keyspace) / 2});
            use_bulk = r.chance(3, 4);
        }
        if (use_bulk) {
            size_t nb = deep ? 4200 + r.below(12000) : r.below(std::min<uint64_t>(2 * keyspace, 2500) + 1);
            std::vector<uint64_t> ks;
            for (size_t i = 0; i < nb; ++i) ks.push_back(r.below(keyspace + 1));
            std::sort(ks.begin(), ks.end());
            for (auto k : ks) bulk.push_back({key(k), val()});
        }
        size_t nops = r.chance(1, 4) ? 600 + r.below(c.thorough() ? 6000 : 2500) : r.below(500);
        if (deep) nops = 9000 + r.below(c.thorough() ? 9000 : 4000);
        for (size_t i = 0; i < nops; ++i) {
            int d = int(r.below(100));
            char t = d < 50 ? 'I' : d < 70 ? 'E' : d < 85 ? 'F' : d < 93 ? 'L' : d < 97 ? 'B' : 'S';
            if (deep) t = d < 62 ? 'I' : d < 92 ? 'E' : d < 98 ? 'F' : d < 99 ? 'L' : 'S'; // mostly updates; walks are O(n) each
            ops.push_back({t, key(r.below(keyspace + 1)), val()});
        }
    }
    c.dumper = [&]() {
        Spec s;
        s.set_one("config", c.cfg.name); s.set_one("case", c.case_idx);
        if (giant) { s.set_one("note", "giant case: regenerate from seed/config/case"); return s; }
        std::vector<K> b;
        for (auto &p : bulk) { b.push_back(p.first); b.push_back(p.second); }
        s.set_vec("bulk_kv", b);
        std::vector<std::string> o;
        for (auto &op : ops) o.push_back(std::string(1, op.t) + ":" + tostr(op.k) + ":" + tostr(op.v));
        s.f["ops"] = o;
        return s;
    };
    Hasher h;
    for (auto &p : bulk) { h.add(uint64_t(p.first)); h.add(uint64_t(p.second)); }
    for (auto &op : ops) { h.add(op.t); h.add(uint64_t(op.k)); h.add(uint64_t(op.v)); }
    c.input_hash = h.h;
    c.traits = "dynamic,keyspace=" + std::to_string(keyspace);
    c.predump();
    const bool judge = !c.prop("C17");
    std::map<K, K> m;
    for (auto &p : bulk) m.insert({p.first, p.second});
    typename CT::dyn_t *x = bulk.empty() && r.chance(1, 2) ? CT::dcreate_empty() : CT::dcreate(bulk.data(), bulk.size());
    if (!x) {
        c.violation("c_dynamic_create_returned_null", J().num("n", bulk.size()));
        return;
    }
    uint64_t finds = 0, walks = 0, steps = 0, max_live = 0;
    auto walk = [&](void *it, typename std::map<K, K>::iterator mi, long long opi, const char *what) {
        K k, v;
        size_t n = 0;
        while (CT::dnext(x, it, &k, &v)) {
            if (judge && (mi == m.end() || mi->first != k || mi->second != v)) {
                c.violation("c_iteration_mismatch", J().str("start", what).num("after_op", opi).num("step", n).num("got_key", k).boolean("expected_end", mi == m.end()));
                CT::ditdestroy(it);
                return;
            }
            if (mi != m.end()) ++mi;
            if (++n > m.size() + 2) {
                c.violation("c_iteration_does_not_terminate", J().str("start", what).num("after_op", opi));
                CT::ditdestroy(it);
                return;
            }
        }
        steps += n;
        if (judge && mi != m.end())
            c.violation("c_iteration_too_short", J().str("start", what).num("after_op", opi).num("steps", n).num("missing_key", mi->first));
        // a further call keeps returning false
        if (CT::dnext(x, it, &k, &v) && judge)
            c.violation("c_iterator_next_after_end", J().str("start", what).num("after_op", opi));
        CT::ditdestroy(it);
        ++walks;
    };
    long long opi = 0;
    for (auto &op : ops) {
        switch (op.t) {
            case 'I': CT::dinsert(x, op.k, op.v); m[op.k] = op.v; break;
            case 'E': CT::derase(x, op.k); m.erase(op.k); break;
            case 'F': {
                K v = 0;
                bool f = CT::dfind(x, op.k, &v);
                auto mi = m.find(op.k);
                ++finds;
                if (judge && (f != (mi != m.end()) || (f && v != mi->second)))
                    c.violation("c_find_mismatch", J().num("after_op", opi).num("key", op.k).boolean("found", f).boolean("expected_found", mi != m.end()));
                break;
            }
            case 'L': walk(CT::dlower(x, op.k), m.lower_bound(op.k), opi, "lower_bound"); break;
            case 'G': { // bounded walk: the first 5 pairs from lower_bound(k)
                void *it = CT::dlower(x, op.k);
                auto mi = m.lower_bound(op.k);
                K k2, v2;
                for (int st = 0; st < 5; ++st) {
                    bool more = CT::dnext(x, it, &k2, &v2);
                    bool emore = mi != m.end();
                    if (judge && (more != emore || (more && (k2 != mi->first || v2 != mi->second)))) {
                        c.violation("c_iteration_mismatch", J().str("start", "lower_bound (bounded walk)").num("after_op", opi).num("step", st).num("query", op.k)
                                                                .boolean("got_pair", more).boolean("expected_pair", emore).num("got_key", more ? k2 : K(0)).num("expected_key", emore ? mi->first : K(0)));
                        break;
                    }
                    if (!more) break;
                    ++mi;
                }
                CT::ditdestroy(it);
                ++walks;
                break;
            }
            case 'B': walk(CT::dbegin(x), m.begin(), opi, "begin"); break;
            default: {
                size_t s = CT::dsize(x);
                if (judge && s != m.size()) c.violation("c_size_mismatch", J().num("after_op", opi).num("size", s).num("expected", m.size()));
            }
        }
        max_live = std::max<uint64_t>(max_live, m.size());
        ++opi;
        if (c.violations_in_case >= 3) break;
    }
    // final full comparison
    walk(CT::dbegin(x), m.begin(), opi, "begin");
    for (int i = 0; i < 20; ++i) {
        K k = key(r.below(keyspace + 1)), v = 0;
        bool f = CT::dfind(x, k, &v);
        auto mi = m.find(k);
        ++finds;
        if (judge && (f != (mi != m.end()) || (f && v != mi->second)))
            c.violation("c_find_mismatch", J().num("after_op", opi).num("key", k).boolean("found", f));
    }
    size_t s = CT::dsize(x);
    if (judge && s != m.size()) c.violation("c_size_mismatch", J().num("after_op", opi).num("size", s).num("expected", m.size()));
    (void) CT::dbytes(x);
    CT::ddestroy(x);
    c.count("operations", ops.size());
    c.count("find_calls", finds);
    c.count("walks", walks);
    c.count("iterator_steps", steps);
    c.maxc("max_live_keys", max_live);
    if (max_live > 600) c.count("histories_beyond_buffer");
    if (max_live > 8000) c.count("deep_histories_three_levels");
    if (giant) c.count("giant_histories_indexed_level");
    c.nontrivial = max_live > 600; // the default buffer holds 585 entries: beyond it at least one merge happened
    if (c.prop("C17")) c.nontrivial = true;
    if (c.want_sample()) c.sample(J().num("ops", ops.size()).num("bulk", bulk.size()).num("final_size", m.size()));
}

#define VF_C(type)                                                                                                     \
    VF_REGISTER(std::string("c/static,") + #type, (&::vf::c_static_case<::vf::CT_##type>), 1.0);                       \
    VF_REGISTER(std::string("c/dynamic,") + #type, (&::vf::c_dynamic_case<::vf::CT_##type>), 0.3)
VF_C(int32);
VF_C(int64);
VF_C(uint32);
VF_C(uint64);

} // namespace vf

int main(int argc, char **argv) { return vf::vf_main(argc, argv, "cinterface"); }

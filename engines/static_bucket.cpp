#include "static_variants.hpp"
namespace {
#if VF_GROUP == 0
VF_BUCKET_HUGE(uint32_t, 4, 128, 32, float);
VF_BUCKET(uint32_t, 5, 128, 32, float);
VF_BUCKET(uint64_t, 1, 4096, 0, float);
#endif
#if VF_GROUP == 1
VF_BUCKET_ENUM(uint64_t, 1, 4, 0, float);
VF_BUCKET_ENUM(uint32_t, 2, 7, 32, float);
VF_BUCKET(uint16_t, 6, 16, 16, float);
VF_BUCKET(uint8_t, 4, 3, 8, float);
#endif
#if VF_GROUP == 2
VF_BUCKET(uint32_t, 8, 550, 0, double);
VF_BUCKET(uint64_t, 100, 7, 32, float);
#endif
#if VF_GROUP == 3
VF_BUCKET_BIG(uint64_t, 1, 4095, 0, float);
VF_BUCKET(uint64_t, 3, 2, 8, float);
VF_BUCKET(uint32_t, 1, 4095, 16, float);
VF_BUCKET_GIANT(uint32_t, 1, 4095, 16, float);
#endif
#if VF_GROUP == 4
VF_BUCKET_SWEEP(uint64_t, 1, 4095, 0, float);
VF_BUCKET(uint16_t, 1, 100, 0, float);
VF_BUCKET(uint8_t, 1, 128, 0, float);
#endif
#if VF_GROUP == 5
VF_BUCKET(uint32_t, 128, 512, 32, float);
VF_BUCKET(uint64_t, 12, 100, 16, double);
#endif
#if VF_GROUP == 6
VF_BUCKET(uint32_t, 4, 512, 32, float);
VF_BUCKET(uint32_t, 8, 100, 32, float);
VF_BUCKET(uint64_t, 4, 3, 0, float);
VF_BUCKET(uint64_t, 1, 550, 32, float);
#endif
#if VF_GROUP == 7
VF_BUCKET(uint16_t, 4, 4096, 0, float);
VF_BUCKET(uint16_t, 128, 7, 8, float);
VF_BUCKET(uint8_t, 8, 2, 0, float);
VF_BUCKET(uint8_t, 1, 16, 8, double);
#endif
#if VF_GROUP == 8
VF_BUCKET(uint32_t, 1, 2, 0, float);
VF_BUCKET(uint32_t, 4, 4, 8, float);
VF_BUCKET(uint64_t, 8, 16, 0, float);
VF_BUCKET(uint64_t, 128, 128, 16, float);
#endif
#if VF_GROUP == 9
VF_BUCKET(uint32_t, 128, 3, 16, float);
VF_BUCKET(uint32_t, 8, 7, 0, float);
VF_BUCKET(uint64_t, 4, 4095, 32, float);
VF_BUCKET(uint64_t, 1, 512, 0, double);
#endif
#if VF_GROUP == 10
VF_BUCKET(uint16_t, 8, 550, 16, float);
VF_BUCKET(uint16_t, 1, 4095, 32, float);
VF_BUCKET(uint8_t, 4, 100, 0, float);
VF_BUCKET(uint8_t, 128, 4, 16, float);
#endif
#if VF_GROUP == 11
VF_BUCKET(uint32_t, 1, 16, 8, double);
VF_BUCKET(uint64_t, 8, 4096, 16, float);
VF_BUCKET(uint32_t, 4, 4096, 0, float);
VF_BUCKET(uint64_t, 1, 128, 8, float);
#endif
}

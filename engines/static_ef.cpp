#include "static_variants.hpp"
namespace {
#if VF_GROUP == 0
VF_EF_HUGE(uint32_t, 8, float);
VF_EF(uint32_t, 2, float);
VF_EF(uint64_t, 1, float);
#endif
#if VF_GROUP == 1
VF_EF_ENUM(uint64_t, 1, float);
VF_EF_ENUM(uint32_t, 2, float);
VF_EF_ENUM(uint16_t, 1, float);
VF_EF(uint16_t, 6, float);
VF_EF(uint64_t, 32, double);
#endif
#if VF_GROUP == 2
VF_EF_SWEEP(uint64_t, 2, float);
VF_EF_SWEEP(uint32_t, 1, float);
VF_EF(uint32_t, 100, float);
VF_EF(uint16_t, 1, double);
#endif
#if VF_GROUP == 3
VF_EF_BIG(uint64_t, 1, float);
VF_EF(uint64_t, 12, float);
VF_EF(uint32_t, 1, float);
#endif
#if VF_GROUP == 4
VF_EF(uint32_t, 8, double);
VF_EF(uint64_t, 2, float);
#endif
#if VF_GROUP == 5
VF_EF(uint16_t, 24, float);
VF_EF(uint64_t, 128, float);
#endif
#if VF_GROUP == 6
VF_EF(uint32_t, 32, float);
VF_EF(uint16_t, 2, float);
#endif
#if VF_GROUP == 7
VF_EF(uint64_t, 1, double);
#endif
}

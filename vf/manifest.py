"""Regenerates MANIFEST.json from the plans (run: python3 -m vf.manifest)."""
import json
import os
import subprocess

from . import plans
from .build import VERIF, REPO

ENGINE_DOC = {
    "static_pgm": ("engines/static_search.hpp + static_pgm.cpp", "PGMIndex search contract, routing trace (hook H2), level sizes; ASan + two ISA levels"),
    "static_comp": ("engines/static_comp.cpp", "CompressedPGMIndex search contract"),
    "static_bucket": ("engines/static_bucket.cpp", "BucketingPGMIndex search contract and bucket table"),
    "static_ef": ("engines/static_ef.cpp", "EliasFanoPGMIndex search contract, predecessor structure"),
    "segmentation": ("engines/segmentation.cpp", "make_segmentation{,_par} with the add_point recorder (hook H1) against an exact rational feasibility oracle"),
    "dynamic": ("engines/dynamic.cpp", "DynamicPGMIndex histories against std::map, LSM invariants through the friend accessor (hook H3)"),
    "mapped": ("engines/mapped.cpp", "MappedPGMIndex multiset queries, three construction paths, guard-page mmap shim"),
    "multidim": ("engines/multidim.cpp", "MultidimensionalPGMIndex range / contains against brute force"),
    "copymove": ("engines/copymove.cpp", "copy / move / destroy-source orders of every class under ASan"),
    "reject": ("engines/reject.cpp", "enumeration of precondition violations, exception category and state preservation"),
    "cinterface": ("engines/cinterface.cpp", "c-interface/cpgm.cpp compiled from the tree, driven through cpgm.h only"),
    "concurrent": ("engines/concurrent.cpp", "2..16 reader threads on shared objects under ThreadSanitizer, digests vs sequential"),
}


def main():
    checks = []
    for pid in sorted(plans.PLANS):
        p = plans.PLANS[pid]
        engines = sorted({r["engine"] for t in ("quick", "thorough") for r in p["runs"](t)})
        checks.append(dict(
            property_id=pid,
            quick_cmd=f"./check {pid} quick",
            thorough_cmd=f"./check {pid} thorough",
            evidence_file=f"evidence/{pid}.json",
            replay_cmd_template="./check replay {path}",
            engine=",".join(engines),
            level_claimed=dict(category=p.get("level", "exploration"), text=p.get("level_text", DEFAULT_LEVEL_TEXT),
                               design_ref=p.get("design_ref", f"DESIGN.md section 4, {pid}")),
            level_note=p.get("level_note", "; ".join(p.get("assumptions", plans.ASSUME_COMMON))),
            technique=p.get("technique", "runtime monitoring: reference-model oracle over generated executions of the real code, under AddressSanitizer"),
        ))
    hooks_commits = subprocess.run(["git", "-C", REPO, "log", "--format=%h %s", "--grep", "verif hook"], stdout=subprocess.PIPE, text=True).stdout.strip().split("\n")
    all_props = [json.loads(l)["id"] for l in open(os.path.join(VERIF, "properties.jsonl"))]
    na = [dict(property_id=i, reason=plans.NOT_APPLICABLE.get(i, "check not built yet in this revision of /verif (see DESIGN.md)"))
          for i in all_props if i not in plans.PLANS]
    m = dict(
        version=1,
        setup_cmd="./check --setup",
        hooks=dict(guard="PGM_INDEX_VERIF", enable="-DPGM_INDEX_VERIF -I/verif/hooks on every engine compile line (vf/build.py); the tsan flavour is built with the guard off",
                   baseline_off_cmd="./check --baseline", source_commits=[c.split()[0] for c in hooks_commits if c], add_only=True),
        engines=[dict(name=n, path=ENGINE_DOC[n][0], serves_properties=sorted(pid for pid in plans.PLANS if any(r["engine"] == n for t in ("quick", "thorough") for r in plans.PLANS[pid]["runs"](t))),
                      kind_free_text=ENGINE_DOC[n][1]) for n in ENGINE_DOC
                 if any(r["engine"] == n for pid in plans.PLANS for t in ("quick", "thorough") for r in plans.PLANS[pid]["runs"](t))],
        checks=checks,
        not_applicable=na,
        notes="Runtime monitoring and sanitizers only. Every check rebuilds its engines from /repo's working tree (content hash), "
              "honours VERIF_SEED / VERIF_TIER, writes evidence/<id>.json, prints VIOLATION lines with a replay file and exits 0/1/2 "
              "(2 = inconclusive). Known findings: known_findings.json.",
    )
    with open(os.path.join(VERIF, "MANIFEST.json"), "w") as f:
        json.dump(m, f, indent=1)
    print("MANIFEST.json:", len(checks), "checks,", len(na), "not applicable")


DEFAULT_LEVEL_TEXT = ("exploration: the real library code, compiled from the working tree, is driven through thousands of generated "
                      "inputs / histories per run and every observable result is judged by an independent oracle while "
                      "AddressSanitizer watches the same executions; the claim is 'held on the executions listed in the evidence', "
                      "not a proof. This is the strongest level the runtime-monitoring family offers for a for-all-inputs property.")

if __name__ == "__main__":
    main()

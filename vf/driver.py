"""Driver: builds the engines a check needs from /repo's working tree, runs them as a pool of worker processes,
attributes crashes / hangs / sanitizer reports to cases, filters known findings, writes replays and evidence."""
import collections
import glob
import json
import os
import re
import signal
import subprocess
import sys
import time
from concurrent.futures import ThreadPoolExecutor

from . import build
from .build import VERIF, REPO
from . import plans
from . import coverage

# VERIF_OUT redirects evidence and replays (used only when evaluating seeded changes in scratch worktrees, so that the
# committed evidence is never overwritten by a run against a modified tree)
_OUT = os.environ.get("VERIF_OUT", VERIF)
RUNDIR = os.path.join(VERIF, "build", "run" if _OUT == VERIF else "run." + str(abs(hash(_OUT)) % 100000))
REPLAYS = os.path.join(_OUT, "replays")
EVIDENCE = os.path.join(_OUT, "evidence")
KNOWN = os.environ.get("VERIF_KNOWN", os.path.join(VERIF, "known_findings.json"))  # override: tools/test_known.py only
CORPUS = os.path.join(VERIF, "corpus")
NSHARDS = int(os.environ.get("VERIF_SHARDS", "16"))
# per-case watchdog (seconds): the slowest legitimate cases (> 2^24 keys under ASan, 5000-operation histories with full
# observation) take well under a minute on an idle machine; expiry is inconclusive until the case, re-run alone, expires again
CASE_TIMEOUT = dict(quick=int(os.environ.get("VERIF_CASE_TIMEOUT", "150")), thorough=int(os.environ.get("VERIF_CASE_TIMEOUT", "600")))


def log(*a):
    print(*a, file=sys.stderr, flush=True)


# ------------------------------------------------------------------------------------------------ worker execution
class Task:
    def __init__(self, run, shard, nshards, exe, label, corpus_spec=None):
        self.run, self.shard, self.nshards, self.exe, self.label = run, shard, nshards, exe, label
        self.corpus_spec = corpus_spec
        self.records = []      # parsed JSON records
        self.cases = []        # (cfg, case, hash, nontrivial, nviol)
        self.crashes = []      # dicts
        self.inconclusive = [] # strings
        self.stderr_tail = ""
        self.wall = 0.0


def base_args(run, prop, tier, seed):
    a = ["--prop", prop, "--tier", tier, "--seed", str(seed), "--cases", str(run.get("cases", 10)),
         "--case-timeout", str(CASE_TIMEOUT[tier])]
    if run.get("configs"):
        a += ["--configs", run["configs"]]
    if run.get("exclude"):
        a += ["--exclude", run["exclude"]]
    if run.get("samples") is not None:
        a += ["--samples", str(run["samples"])]
    for k, v in run.get("x", {}).items():
        a += [f"--x-{k}", str(v)]
    return a


def parse_out(path, task):
    """Parses an engine output file. Returns the (cfg, case) that was begun but not finished, if any."""
    open_case = None
    if not os.path.exists(path):
        return None
    with open(path, errors="replace") as f:
        for line in f:
            line = line.rstrip("\n")
            if not line:
                continue
            if line[0] == "B":
                p = line.split()
                open_case = (int(p[1]), int(p[2]))
            elif line[0] == "E":
                p = line.split()
                task.cases.append((int(p[1]), int(p[2]), p[3], p[4] == "1", int(p[5])))
                open_case = None
            elif line[0] == "{":
                try:
                    task.records.append(json.loads(line))
                except ValueError:
                    task.inconclusive.append(f"unparsable record in {path}")
    return open_case


def rerun_single(task, prop, tier, seed, open_case, env, timeout):
    """Re-runs one case alone. Returns True if it does not finish within the timeout either (a hang)."""
    cfgs = [x for x in task.run.get("_configs", []) if x]
    if open_case[0] >= len(cfgs) and not task.corpus_spec:
        return True
    out = os.path.join(RUNDIR, f"{task.label}.single.jsonl")
    if os.path.exists(out):
        os.unlink(out)
    args = [] if task.corpus_spec else base_args(task.run, prop, tier, seed) + ["--config", cfgs[open_case[0]], "--case", str(open_case[1]), "--out", out]
    if task.corpus_spec:
        args = ["--prop", prop, "--tier", tier, "--seed", str(seed), "--spec", task.corpus_spec, "--samples", "0",
                "--case-timeout", str(CASE_TIMEOUT[tier]), "--out", out]
    try:
        p = subprocess.run([task.exe] + args, env=env, cwd=RUNDIR, stdout=subprocess.DEVNULL, stderr=subprocess.DEVNULL, timeout=timeout)
        return p.returncode == 124
    except subprocess.TimeoutExpired:
        return True


def run_watched(cmd, ef, env, timeout, stall, files):
    """Runs a worker; raises TimeoutExpired when it exceeds `timeout` or when neither of `files` has grown for `stall`
    seconds. The second guard exists because the worker's own per-case alarm cannot fire when every thread is blocked inside
    the sanitizer runtime (seen with ThreadSanitizer's report lock after a racy change corrupted the heap)."""
    p = subprocess.Popen(cmd, stdout=ef, stderr=subprocess.STDOUT, env=env, cwd=RUNDIR)
    t0 = last_change = time.time()
    last = None
    while True:
        try:
            return p.wait(timeout=2)
        except subprocess.TimeoutExpired:
            pass
        sizes = tuple(os.path.getsize(f) if os.path.exists(f) else -1 for f in files)
        now = time.time()
        if sizes != last:
            last, last_change = sizes, now
        if now - t0 > timeout or now - last_change > stall:
            p.kill()
            p.wait()
            raise subprocess.TimeoutExpired(cmd, now - t0)


def run_task(task, prop, tier, seed, timeout):
    """Runs one worker (restarting it after a crash / hang at the next case)."""
    t0 = time.time()
    fl = build.FLAVOURS[task.run["flavour"]]
    env = dict(os.environ)
    env.update(fl["env"])
    # engines that do not choose the construction thread count per case get a different one per shard
    env["OMP_NUM_THREADS"] = str([4, 3, 7, 2, 5, 12, 1, 16][task.shard % 8])
    # ... and some shards run in an OpenMP environment that delivers fewer threads than requested (num_threads is only a
    # request): a thread limit below the chunk count, dynamic adjustment of the team size
    if task.shard % 8 == 5:
        env["OMP_THREAD_LIMIT"] = "3"
    elif task.shard % 8 == 2:
        env["OMP_THREAD_LIMIT"] = "2"
    elif task.shard % 8 == 6:
        env["OMP_DYNAMIC"] = "true"
    env.update(task.run.get("env", {}))
    if task.run["flavour"] in ("tsan", "tsanomp"):
        env["VF_STDERR_MARKERS"] = "1"
    resume = None
    attempt = 0
    while True:
        attempt += 1
        out = os.path.join(RUNDIR, f"{task.label}.{attempt}.jsonl")
        err = os.path.join(RUNDIR, f"{task.label}.{attempt}.err")
        for p in (out, err):
            if os.path.exists(p):
                os.unlink(p)
        if task.corpus_spec:
            args = ["--prop", prop, "--tier", tier, "--seed", str(seed), "--spec", task.corpus_spec, "--samples", "0",
                    "--case-timeout", str(CASE_TIMEOUT[tier])]
            for k, v in task.run.get("x", {}).items():
                args += [f"--x-{k}", str(v)]
        else:
            args = base_args(task.run, prop, tier, seed) + ["--shard", str(task.shard), "--nshards", str(task.nshards)]
            if resume:
                args += ["--resume", str(resume[0]), str(resume[1])]
        args += ["--out", out]
        with open(err, "wb") as ef:
            try:
                rc = run_watched([task.exe] + args, ef, env, timeout, CASE_TIMEOUT[tier] + 60, (out, err))
                timed_out = rc == 124
            except subprocess.TimeoutExpired:
                rc, timed_out = -9, True
        open_case = parse_out(out, task)
        tail = ""
        try:
            with open(err, errors="replace") as f:
                data = f.read()
            tail = data[-4000:]
            task.stderr_all = getattr(task, "stderr_all", "") + data[-200000:]
        except OSError:
            pass
        if rc == 0 and not timed_out:
            break
        if open_case is None:
            task.inconclusive.append(f"{task.label}: worker exited rc={rc} timed_out={timed_out} outside any case: {tail[-500:]}")
            break
        if timed_out and task.run["flavour"] in ("tsan", "tsanomp") and "WARNING: ThreadSanitizer" in getattr(task, "stderr_all", ""):
            # the process had already printed a race report (attributed to its case from the log below); a runtime that stalls
            # afterwards - typically on its own report lock once the race has corrupted memory - is not evidence of a hang in
            # the library, and the rest of this shard adds nothing to the verdict
            task.inconclusive.append(f"{task.label}: worker stalled in case {open_case} after ThreadSanitizer had reported; rest of the shard not run")
            break
        if timed_out:
            # a case that makes no progress: re-run that case alone once (a single case normally takes seconds) before
            # calling it a hang; a wall-clock expiry alone is never a verdict
            log(f"[run] {task.label}: watchdog expired in case {open_case}; re-running that case alone")
            if rerun_single(task, prop, tier, seed, open_case, env, CASE_TIMEOUT[tier] + 30):
                task.crashes.append(dict(kind="hang", cfg=open_case[0], case=open_case[1], rc=rc, stderr=tail))
            else:
                task.inconclusive.append(f"{task.label}: watchdog expired in case {open_case} but the case finished when re-run alone (machine overloaded?)")
        else:
            kind = "crash"
            task.crashes.append(dict(kind=kind, cfg=open_case[0], case=open_case[1], rc=rc, stderr=tail))
        if sum(1 for x in task.crashes if x["kind"] == "hang") >= 2:
            break  # two confirmed hangs in one shard are witness enough; do not spend hours on the rest of the shard
        max_restarts = 6 if tier == "quick" else 24  # per shard, i.e. ~100 / ~400 crash witnesses per run: the verdict is clear long before
        if task.corpus_spec or attempt > max_restarts:
            if attempt > max_restarts:
                task.inconclusive.append(f"{task.label}: more than {max_restarts} crashes, giving up on this shard")
            break
        resume = open_case
    task.wall = time.time() - t0
    return task


# ------------------------------------------------------------------------------------------------ known findings
def load_known():
    if not os.path.exists(KNOWN):
        return []
    with open(KNOWN) as f:
        return json.load(f).get("findings", [])


def match_known(v, known, prop):
    """v: violation dict (engine, config, kind, region, ...). Returns the open finding it belongs to, if any."""
    for k in known:
        if k.get("status") != "open" or k.get("property") != prop:
            continue
        m = k.get("match", {})
        if m.get("engine") and m["engine"] != v.get("engine"):
            continue
        if m.get("kind") and m["kind"] != v.get("kind"):
            continue
        if m.get("config_regex") and not re.search(m["config_regex"], v.get("config", "")):
            continue
        if m.get("region") and m["region"] != v.get("region"):
            continue
        if m.get("detail_regex") and not re.search(m["detail_regex"], json.dumps(v.get("detail", {}))):
            continue
        return k
    return None


# ------------------------------------------------------------------------------------------------ main entry
def corpus_files(engine, prop):
    out = []
    for p in sorted(glob.glob(os.path.join(CORPUS, engine, "*.spec"))):
        props, config = "", ""
        with open(p) as f:
            for line in f:
                if line.startswith("props:"):
                    props = line[6:].split()
                elif line.startswith("config:"):
                    config = line[7:].strip()
        if prop in props:
            out.append((p, config))
    return out


def run_check(prop, tier, seed):
    t_start = time.time()
    plan = plans.PLANS[prop]
    runs = plan["runs"](tier)
    if tier == "thorough" and plan.get("coverage", True) and not os.environ.get("VERIF_NO_COV"):
        seen_eng = set()
        for r in list(runs):
            if r["engine"] in seen_eng or r["flavour"] == "tsan":
                continue
            seen_eng.add(r["engine"])
            rc = dict(r)
            rc.update(flavour="cov", cases=max(3, int(r["cases"]) // 60), binary_tier="quick", corpus=True, samples=0)
            if plans.cov_exclude(r["engine"]):
                rc["exclude"] = plans.cov_exclude(r["engine"])
            runs.append(rc)
    os.makedirs(RUNDIR, exist_ok=True)
    os.makedirs(EVIDENCE, exist_ok=True)
    build.prune()
    now = time.time()
    for f in os.listdir(RUNDIR):  # worker logs of earlier runs
        fp = os.path.join(RUNDIR, f)
        try:
            if f.startswith(f"{prop}.{tier}.") or now - os.path.getmtime(fp) > 6 * 3600:
                os.unlink(fp)
        except OSError:
            pass

    # 1. build
    bins = []
    seen = set()
    for r in runs:
        b = plans.binary(r["engine"], r.get("binary_tier", tier), r["flavour"])
        key = (b["name"], b["flavour"])
        if key not in seen:
            seen.add(key)
            bins.append(b)
        r["_bin"] = key
    try:
        exes = build.ensure(bins)
    except build.BuildError as e:
        log(str(e))
        log("INCONCLUSIVE: the engines do not compile against the current tree")
        return 2, None
    t_built = time.time()

    # 2. tasks
    tasks = []
    cov_prefix = None
    if tier == "thorough" and plan.get("coverage", True) and not os.environ.get("VERIF_NO_COV"):
        cov_prefix = coverage.prefix_dir(RUNDIR, prop, tier)
        subprocess.call(["rm", "-rf", cov_prefix])
    for ri, r in enumerate(runs):
        if r["flavour"] == "cov":
            r.setdefault("env", {}).update({"GCOV_PREFIX": cov_prefix or "/dev/null", "GCOV_PREFIX_STRIP": "0"})
        exe = exes[r["_bin"]]
        r["_configs"] = subprocess.run([exe, "--list"], stdout=subprocess.PIPE, text=True).stdout.split("\n")
        nsh = r.get("shards", NSHARDS)
        for s in range(0 if os.environ.get("VERIF_CORPUS_ONLY") else nsh):
            tasks.append(Task(r, s, nsh, exe, f"{prop}.{tier}.r{ri}.{r['engine']}.{r['flavour']}.s{s}"))
        if r.get("corpus", True):
            for ci, (spec, config) in enumerate(corpus_files(r["engine"], prop)):
                if config in r["_configs"]:
                    tasks.append(Task(r, 0, 1, exe, f"{prop}.{tier}.r{ri}.{r['engine']}.{r['flavour']}.corpus{ci}", corpus_spec=spec))
    timeout = plan.get("timeout", {}).get(tier, 900 if tier == "quick" else 5400)
    log(f"[run] {prop} {tier}: {len(runs)} engine runs, {len(tasks)} workers, seed {seed}")
    with ThreadPoolExecutor(build.JOBS) as ex:
        list(ex.map(lambda t: run_task(t, prop, tier, seed, timeout), tasks))
    t_ran = time.time()

    # 3. collect
    known = load_known()
    violations = []
    samples = []
    summaries = collections.defaultdict(lambda: dict(sum=collections.Counter(), max={}, maxf={}, cases=0))
    evaluations = 0
    nontrivial_hashes = set()
    inconclusive = []
    sanitizer_reports = collections.Counter()
    n_predumps = 0
    n_hang_predumps = 0
    for t in tasks:
        inconclusive += t.inconclusive
        eng, flav = t.run["engine"], t.run["flavour"]
        evaluations += len(t.cases)
        for cfg, case, h, nt, nv in t.cases:
            if nt:
                nontrivial_hashes.add((eng, h))
        for rec in t.records:
            ty = rec.get("t")
            if ty == "violation":
                rec["engine"], rec["flavour"] = eng, flav
                if "spec" not in rec and not t.corpus_spec and n_predumps < 12 and eng != "concurrent" and rec.get("kind") in ("asan_report", "tsan_report", "unexpected_exception"):
                    n_predumps += 1
                    spec = predump(t, prop, tier, seed, rec.get("config"), rec.get("case"))
                    if spec:
                        rec["spec"] = spec
                if rec.get("kind") == "asan_report":
                    rec["stderr"] = extract_report(getattr(t, "stderr_all", ""), "AddressSanitizer")
                    sanitizer_reports["asan"] += 1
                elif rec.get("kind") == "tsan_report":
                    txt = getattr(t, "stderr_all", "")
                    i = txt.find("WARNING: ThreadSanitizer")
                    rec["stderr"] = txt[i:i + 3500] if i >= 0 else txt[-1500:]
                    sanitizer_reports["tsan"] += 1
                violations.append(rec)
            elif ty == "sample":
                rec["engine"], rec["flavour"] = eng, flav
                samples.append(rec)
            elif ty == "summary":
                s = summaries[f"{eng}/{flav}"]
                s["cases"] += rec.get("cases", 0)
                s["sum"].update(rec.get("sum", {}))
                for k, v in rec.get("max", {}).items():
                    s["max"][k] = max(s["max"].get(k, 0), v)
                for k, v in rec.get("maxf", {}).items():
                    if isinstance(v, (int, float)):
                        s["maxf"][k] = max(s["maxf"].get(k, 0), v)
        for c in t.crashes:
            cfgs = [x for x in t.run["_configs"] if x]
            cfgname = cfgs[c["cfg"]] if c["cfg"] < len(cfgs) else str(c["cfg"])
            if t.corpus_spec:
                gen = dict(spec_file=os.path.relpath(t.corpus_spec, VERIF))
            else:
                gen = dict(config=cfgname, case=c["case"], seed=seed)
            v = dict(t="violation", prop=prop, engine=eng, flavour=flav, config=cfgname, case=c["case"],
                     seed=seed, kind=c["kind"], region="", detail=dict(returncode=c["rc"]),
                     stderr=c["stderr"][-3000:], gen=gen, x=t.run.get("x", {}))
            # (a hanging case hangs again while its witness is recovered: at most two of those)
            if not t.corpus_spec and n_predumps < 12 and eng != "concurrent" and not (c["kind"] == "hang" and n_hang_predumps >= 2):  # concurrent cases have no input witness beyond (seed, config, case)
                n_hang_predumps += c["kind"] == "hang"
                n_predumps += 1
                spec = predump(t, prop, tier, seed, cfgname, c["case"])
                if spec:
                    v["spec"] = spec
            violations.append(v)
        # ThreadSanitizer reports in the worker's log that the in-process hook did not turn into a violation of a case
        if flav in ("tsan", "tsanomp"):
            reported = {(r.get("config"), r.get("case")) for r in t.records if r.get("t") == "violation" and r.get("kind") == "tsan_report"}
            cfgs = [x for x in t.run["_configs"] if x]
            cur = None
            seen_cases = set()
            text = getattr(t, "stderr_all", "")
            for m in re.finditer(r"^VF-CASE (\d+) (\d+)$|^(WARNING: ThreadSanitizer: [^\n]*)$", text, re.M):
                if m.group(1) is not None:
                    cur = (int(m.group(1)), int(m.group(2)))
                elif cur is not None and cur not in seen_cases:
                    seen_cases.add(cur)
                    cfgname = cfgs[cur[0]] if cur[0] < len(cfgs) else str(cur[0])
                    if (cfgname, cur[1]) in reported:
                        continue
                    violations.append(dict(t="violation", prop=prop, engine=eng, flavour=flav, config=cfgname, case=cur[1], seed=seed,
                                           kind="tsan_report", region="", detail=dict(first_line=m.group(3), source="worker log"),
                                           stderr=text[m.start():m.start() + 3500], x=t.run.get("x", {})))
                    sanitizer_reports["tsan"] += 1
        # post-processing hooks of the plan (e.g. TSan report extraction)
        post = t.run.get("post")
        if post:
            for v in post(t, prop, seed):
                v.setdefault("engine", eng)
                v.setdefault("flavour", flav)
                violations.append(v)
                sanitizer_reports[v.get("kind", "report")] += 1

    # a plan may restrict which violation kinds belong to its property (others are ignored *and counted*)
    kinds = plan.get("kinds")
    ignored = collections.Counter()
    if kinds is not None:
        kept = []
        for v in violations:
            if v.get("kind") in kinds or v.get("kind") in plan.get("always", ("crash", "hang", "unexpected_exception")):
                kept.append(v)
            else:
                ignored[v.get("kind")] += 1
        violations = kept

    # 4. known findings / replays
    os.makedirs(os.path.join(REPLAYS, prop), exist_ok=True)
    for old_replay in glob.glob(os.path.join(REPLAYS, prop, "*.json")):
        os.unlink(old_replay)
    new, attributed = [], collections.defaultdict(list)
    for v in violations:
        k = match_known(v, known, prop)
        if k:
            attributed[k["id"]].append(v)
        else:
            new.append(v)
    for kid, vs in attributed.items():
        k = next(x for x in known if x["id"] == kid)
        print(f"KNOWN-FINDING: property={prop} {kid}: {k['what']} (reproduced {len(vs)}x, e.g. config={vs[0].get('config')})")
    replay_paths = []
    seen_keys = set()
    for v in new:
        key = (v.get("engine"), v.get("flavour"), v.get("config"), v.get("kind"))
        if key in seen_keys and len(replay_paths) >= 3:
            continue
        if len(replay_paths) >= 25:
            break
        seen_keys.add(key)
        name = re.sub(r"[^A-Za-z0-9_.-]+", "_", f"{v.get('engine')}.{v.get('flavour')}.{v.get('config')}.{v.get('kind')}.c{v.get('case')}.s{seed}")[:180]
        path = os.path.join(REPLAYS, prop, name + ".json")
        if os.path.relpath(path, _OUT) in replay_paths:
            continue  # one witness per (engine, flavour, config, kind, case) is enough
        v2 = dict(v)
        v2["prop"] = prop
        v2["tier"] = tier
        with open(path, "w") as f:
            json.dump(v2, f, indent=1)
        replay_paths.append(os.path.relpath(path, _OUT))
    for p in replay_paths:
        print(f"VIOLATION property={prop} replay={p}")

    # 5. evidence
    wall = time.time() - t_start
    cov = dict(
        evaluations=evaluations,
        distinct_nontrivial=len(nontrivial_hashes),
        rule=plan["rule"],
        samples=[strip_sample(s) for s in pick_samples(samples)],
        exhaustive=False,
        engine_runs=[dict(engine=r["engine"], flavour=r["flavour"], cases_per_config=r.get("cases"), configs=len([c for c in r["_configs"] if c]),
                          filter=r.get("configs", "")) for r in runs],
        monitors={k: dict(cases=v["cases"], counters=dict(v["sum"]), maxima=v["max"], maxima_f=v["maxf"]) for k, v in summaries.items()},
        sanitizer_reports=dict(sanitizer_reports),
        violations_new=len(new),
        violation_kinds=dict(collections.Counter(v.get("kind") for v in new)),
        known_findings_reproduced={k: len(v) for k, v in attributed.items()},
        other_kinds_ignored=dict(ignored),
        inconclusive=inconclusive[:20],
        build_s=round(t_built - t_start, 1), run_s=round(t_ran - t_built, 1),
        tree_hash=build.tree_hash(),
        workers=len(tasks),
    )
    if cov_prefix and any(r["flavour"] == "cov" for r in runs):
        try:
            cov["anchor_line_coverage"] = coverage.anchor_report(prop, cov_prefix)
        except Exception as e:  # noqa: BLE001 - coverage is supplementary evidence, never a verdict
            cov["anchor_line_coverage"] = dict(error=str(e))
        subprocess.call(["rm", "-rf", cov_prefix])
    be = {}
    for name, sm in summaries.items():
        if sm["sum"].get("enum_cases") and sm["max"].get("enum_space_per_configuration"):
            space = sm["max"]["enum_space_per_configuration"]
            be[name] = dict(arrays_enumerated=sm["sum"]["enum_cases"], space_per_configuration=space,
                            configurations_enumerated_completely=sm["sum"]["enum_cases"] // space,
                            what=("both initial states (empty, bulk load of 6 keys) x every sequence of 1..5 insert_or_assign / erase operations over 5 keys, "
                                  "base 2, buffer of 3, every deeper level indexed; full observation after every operation") if name.startswith("dynamic")
                            else "every sorted array of length 1..7 over 9 consecutive key values at lowest(), mid-type and ending at max-1, all neighbouring queries")
    if be:
        cov["bounded_exhaustive"] = be
    extra = plan.get("evidence_extra")
    if extra:
        cov.update(extra(tasks, summaries))
    ev = dict(property_id=prop, tier=tier, seed=seed, level=plan.get("level", "exploration"), coverage=cov,
              assumptions=plan.get("assumptions", []), wall_s=round(wall, 1), violations=len(new))
    with open(os.path.join(EVIDENCE, f"{prop}.json"), "w") as f:
        json.dump(ev, f, indent=1)

    # worker logs are only needed while the run is being evaluated (witnesses have been copied into the replay files)
    if not os.environ.get("VERIF_KEEP_RUN"):
        for t in tasks:
            for f in glob.glob(os.path.join(RUNDIR, t.label + ".*")):
                try:
                    os.unlink(f)
                except OSError:
                    pass
        if _OUT != VERIF:
            try:
                os.rmdir(RUNDIR)
            except OSError:
                pass

    # 6. verdict
    log(f"[done] {prop} {tier}: cases={evaluations} distinct_nontrivial={len(nontrivial_hashes)} new_violations={len(new)} "
        f"known={sum(len(v) for v in attributed.values())} inconclusive={len(inconclusive)} build={t_built - t_start:.0f}s run={t_ran - t_built:.0f}s")
    if new:
        return 1, ev
    if inconclusive:
        for m in inconclusive[:10]:
            log("INCONCLUSIVE:", m)
        return 2, ev
    min_cases = plan.get("min_cases", 1)
    if evaluations < min_cases or len(nontrivial_hashes) < 2:
        log(f"INCONCLUSIVE: the monitors observed too little (cases={evaluations}, nontrivial={len(nontrivial_hashes)})")
        return 2, ev
    return 0, ev


def predump(task, prop, tier, seed, config, case):
    """Re-runs one (crashing) case with --x-predump 1 to recover its input."""
    out = os.path.join(RUNDIR, f"{task.label}.predump.jsonl")
    if os.path.exists(out):
        os.unlink(out)
    args = base_args(task.run, prop, tier, seed) + ["--config", config, "--case", str(case), "--x-predump", "1", "--out", out]
    env = dict(os.environ)
    env.update(build.FLAVOURS[task.run["flavour"]]["env"])
    # the record is written before the risky part of the case: stop the worker as soon as it is there (a crashing case may
    # equally hang under a sanitizer), and never wait longer than one case watchdog
    p = subprocess.Popen([task.exe] + args, env=env, cwd=RUNDIR, stdout=subprocess.DEVNULL, stderr=subprocess.DEVNULL)
    t0 = time.time()
    while p.poll() is None and time.time() - t0 < CASE_TIMEOUT[tier]:
        time.sleep(0.5)
        try:
            with open(out, errors="replace") as f:
                data = f.read()
            if '"predump"' in data and data.endswith("\n"):
                break
        except OSError:
            pass
    if p.poll() is None:
        p.kill()
    p.wait()
    t = Task(task.run, 0, 1, task.exe, "predump")
    parse_out(out, t)
    for r in t.records:
        if r.get("t") == "predump" and r.get("spec"):
            return r["spec"]
    return None


def extract_report(text, marker):
    i = text.find("ERROR: " + marker)
    if i < 0:
        return text[-1500:]
    return text[i:i + 3000]


def pick_samples(samples, n=4):
    out, seen = [], set()
    for s in samples:
        k = (s.get("engine"), s.get("config"))
        if k in seen:
            continue
        seen.add(k)
        out.append(s)
        if len(out) >= n:
            break
    return out or samples[:1]


def strip_sample(s):
    s = dict(s)
    s.pop("t", None)
    return s


# ------------------------------------------------------------------------------------------------ replay
def replay(path):
    if path.endswith(".spec"):  # a corpus file: corpus/<engine>/<name>.spec with config: and props: lines
        props, config = [], ""
        with open(path) as f:
            for line in f:
                if line.startswith("props:"):
                    props = line[6:].split()
                elif line.startswith("config:"):
                    config = line[7:].strip()
        engine = os.path.basename(os.path.dirname(os.path.abspath(path)))
        rc = 0
        for pr in props or ["C17"]:
            flav = "tsan" if engine == "concurrent" else "asan"
            v = dict(prop=pr, tier="quick", engine=engine, flavour=flav, config=config, case=0, seed=1, kind="(corpus)",
                     gen=dict(spec_file=os.path.relpath(os.path.abspath(path), VERIF)))
            tmp = os.path.join(RUNDIR, f"replay.{os.getpid()}.{pr}.json")
            os.makedirs(RUNDIR, exist_ok=True)
            with open(tmp, "w") as f:
                json.dump(v, f)
            rc = max(rc, replay(tmp))
        return rc
    with open(path) as f:
        v = json.load(f)
    prop, tier = v.get("prop", "C00"), v.get("tier", "quick")
    eng, flav = v["engine"], v["flavour"]
    b = plans.binary(eng, "thorough", flav)
    try:
        exe = build.ensure([b])[(b["name"], flav)]
    except build.BuildError as e:
        log(str(e))
        return 2
    os.makedirs(RUNDIR, exist_ok=True)
    out = os.path.join(RUNDIR, f"replay.{os.getpid()}.jsonl")
    args = ["--prop", prop, "--tier", tier, "--seed", str(v.get("seed", 1)), "--out", out, "--samples", "0"]
    for k, val in v.get("x", {}).items():
        args += [f"--x-{k}", str(val)]
    if v.get("spec"):
        specfile = os.path.join(RUNDIR, f"replay.{os.getpid()}.spec")
        with open(specfile, "w") as f:
            for k, toks in v["spec"].items():
                f.write(f"{k}: {' '.join(toks)}\n")
        args += ["--spec", specfile]
    elif v.get("gen", {}).get("spec_file"):
        args += ["--spec", os.path.join(VERIF, v["gen"]["spec_file"])]
    else:
        args += ["--config", v["config"], "--case", str(v["case"]), "--cases", str(max(int(v["case"]) + 1, 1))]
    env = dict(os.environ)
    env.update(build.FLAVOURS[flav]["env"])
    p = subprocess.run([exe] + args, env=env, cwd=RUNDIR, stdout=subprocess.PIPE, stderr=subprocess.STDOUT, text=True)
    t = Task(dict(engine=eng, flavour=flav), 0, 1, exe, "replay")
    open_case = parse_out(out, t)
    vs = [r for r in t.records if r.get("t") == "violation"]
    print(f"replay of {path}: engine={eng} flavour={flav} config={v.get('config')} case={v.get('case')} expected kind={v.get('kind')}")
    if p.returncode != 0 or open_case:
        print(f"  worker died (rc={p.returncode}) in case {open_case}")
        print(p.stdout[-2000:])
        print(f"VIOLATION property={prop} replay={path}")
        return 1
    for r in vs:
        print(f"  observed: kind={r['kind']} detail={json.dumps(r['detail'])}")
    if vs:
        print(f"VIOLATION property={prop} replay={path}")
        return 1
    print("  no violation observed on the current tree")
    return 0

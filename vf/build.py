"""Content-addressed builds of the engines from /repo's *current working tree*.

Every object file lives under build/<treehash>/<flavour>/ ; <treehash> covers the library headers, the C interface, the
engine sources and the hook implementation, so an edited tree is always recompiled and an unchanged one is reused by
all checks."""
import hashlib
import os
import subprocess
import sys
import time
from concurrent.futures import ThreadPoolExecutor

VERIF = os.path.dirname(os.path.dirname(os.path.abspath(__file__)))
REPO = os.environ.get("VERIF_REPO", "/repo")
BUILD = os.path.join(VERIF, "build")
JOBS = int(os.environ.get("VERIF_JOBS", "16"))

COMMON = ["-std=gnu++17", "-DNDEBUG", f"-I{REPO}/include", f"-I{VERIF}/engines/common", f"-I{VERIF}/engines",
          "-Wno-deprecated-declarations"]
HOOKS = ["-DPGM_INDEX_VERIF", f"-I{VERIF}/hooks"]

FLAVOURS = {
    # functional oracles + memory monitor in one run (recover mode: reports are attributed to cases and counted)
    "asan": dict(cxx="g++", flags=COMMON + HOOKS + ["-fopenmp", "-O1", "-g1", "-fno-omit-frame-pointer",
                                                    "-fsanitize=address", "-fsanitize-recover=address", "-march=native"],
                 env={"ASAN_OPTIONS": "halt_on_error=0:detect_leaks=0:abort_on_error=1:allocator_may_return_null=1:"
                                      "detect_stack_use_after_return=0:print_summary=1"}),
    # the repository's own optimisation level
    "rel": dict(cxx="g++", flags=COMMON + HOOKS + ["-fopenmp", "-O2", "-g1", "-march=native"], env={}),
    # second ISA level: no AVX-512, float->integer conversions take the cvttsd2si path
    "v3": dict(cxx="g++", flags=COMMON + HOOKS + ["-fopenmp", "-O2", "-g1", "-march=x86-64-v3"], env={}),
    # data-race detector on the unhooked code, no OpenMP (construction is sequential, readers are std::thread)
    "tsan": dict(cxx="g++", flags=COMMON + ["-O1", "-g1", "-fsanitize=thread", "-march=native", "-pthread",
                                            "-Wno-unknown-pragmas"],
                 env={"TSAN_OPTIONS": "halt_on_error=0:exitcode=0:report_signal_unsafe=0:history_size=4:second_deadlock_stack=1"}),
    # races inside the chunked OpenMP builder: clang + ThreadSanitizer + Archer (OMPT tool that teaches TSan OpenMP's
    # synchronisation); pgm_index.hpp only (clang 14 cannot parse pgm_index_variants.hpp)
    "tsanomp": dict(cxx="clang++-14", flags=COMMON + HOOKS + ["-fopenmp", "-O1", "-g1", "-fsanitize=thread", "-march=native"],
                    env={"OMP_TOOL_LIBRARIES": "/usr/lib/llvm-14/lib/libarcher.so",
                         "TSAN_OPTIONS": "halt_on_error=0:exitcode=0:ignore_noninstrumented_modules=1:report_signal_unsafe=0"}),
    # advisory: undefined-behaviour reports are listed in the evidence, never a verdict
    "ubsan": dict(cxx="g++", flags=COMMON + HOOKS + ["-fopenmp", "-O1", "-g1", "-fsanitize=undefined,float-cast-overflow",
                                                     "-fsanitize-recover=all", "-march=native"],
                  env={"UBSAN_OPTIONS": "print_stacktrace=0:halt_on_error=0"}),
    # line coverage of the anchored mechanisms (thorough)
    "cov": dict(cxx="g++", flags=COMMON + HOOKS + ["-fopenmp", "-O0", "-g1", "--coverage", "-march=native"], env={}),
}

_tree_hash_cache = None


def _hash_files(paths):
    h = hashlib.sha256()
    for p in sorted(paths):
        h.update(p.encode())
        with open(p, "rb") as f:
            h.update(hashlib.sha256(f.read()).digest())
    return h


_dep_cache = {}


def _local_deps(path, seen=None):
    """Quoted includes of an engine source that resolve inside /verif/engines (recursively)."""
    import re
    seen = seen if seen is not None else set()
    if path in seen or not os.path.exists(path):
        return seen
    seen.add(path)
    with open(path, errors="replace") as f:
        for m in re.finditer(r'^\s*#\s*include\s+"([^"]+)"', f.read(), re.M):
            for base in (os.path.dirname(path), f"{VERIF}/engines", f"{VERIF}/engines/common"):
                cand = os.path.join(base, m.group(1))
                if os.path.exists(cand):
                    _local_deps(cand, seen)
                    break
    return seen


def tu_key(src, defines):
    """Hash of one translation unit's own sources (the library headers are covered by tree_hash())."""
    k = (src, tuple(defines))
    if k not in _dep_cache:
        h = _hash_files(sorted(_local_deps(src)))
        h.update(repr(defines).encode())
        _dep_cache[k] = h.hexdigest()[:10]
    return _dep_cache[k]


def tree_hash():
    """Hash of the library under test (headers, C interface) and of the hook implementation + flags."""
    global _tree_hash_cache
    if _tree_hash_cache:
        return _tree_hash_cache
    files = []
    for root in (f"{REPO}/include/pgm", f"{REPO}/c-interface", f"{VERIF}/hooks"):
        for d, _, fs in os.walk(root):
            if "/examples" in d:
                continue
            for f in fs:
                if f.endswith((".hpp", ".h", ".cpp", ".c")):
                    files.append(os.path.join(d, f))
    h = _hash_files(files)
    h.update(repr(sorted((k, v["cxx"], v["flags"]) for k, v in FLAVOURS.items())).encode())
    _tree_hash_cache = h.hexdigest()[:16]
    return _tree_hash_cache


def build_dir(flavour):
    d = os.path.join(BUILD, tree_hash(), flavour)
    os.makedirs(d, exist_ok=True)
    return d


def prune(keep=3, min_age_s=3600):
    """Remove build directories of tree hashes that have not been used for a while (never one that may be in use by a
    concurrently running check: only directories untouched for `min_age_s` - a check touches its directory when it starts
    and the longest thorough check takes about a quarter of an hour - and the `keep` newest always stay)."""
    if not os.path.isdir(BUILD):
        return
    cur = tree_hash()
    dirs = []
    for name in os.listdir(BUILD):
        p = os.path.join(BUILD, name)
        if os.path.isdir(p) and len(name) == 16 and name != cur:
            dirs.append((os.path.getmtime(p), p))
    dirs.sort(reverse=True)
    now = time.time()
    for mt, p in dirs[keep - 1:]:
        if now - mt > min_age_s:
            subprocess.call(["rm", "-rf", p])


class BuildError(Exception):
    pass


def _compile(flavour, src, defines, obj):
    if os.path.exists(obj):
        return 0.0
    fl = FLAVOURS[flavour]
    tmp = f"{obj}.{os.getpid()}.tmp"
    cmd = [fl["cxx"]] + fl["flags"] + [d if d.startswith("-") else f"-D{d}" for d in defines] + ["-c", src, "-o", tmp]
    t0 = time.time()
    p = subprocess.run(cmd, stdout=subprocess.PIPE, stderr=subprocess.STDOUT, text=True)
    if p.returncode != 0:
        if os.path.exists(tmp):
            os.unlink(tmp)
        raise BuildError(f"compile failed: {' '.join(cmd)}\n{p.stdout[-6000:]}")
    os.replace(tmp, obj)
    return time.time() - t0


def _link(flavour, objs, exe, extra):
    fl = FLAVOURS[flavour]
    tmp = f"{exe}.{os.getpid()}.tmp"
    cmd = [fl["cxx"]] + fl["flags"] + objs + ["-o", tmp] + extra
    p = subprocess.run(cmd, stdout=subprocess.PIPE, stderr=subprocess.STDOUT, text=True)
    if p.returncode != 0:
        raise BuildError(f"link failed: {' '.join(cmd)}\n{p.stdout[-6000:]}")
    os.replace(tmp, exe)


def ensure(binaries):
    """binaries: list of dicts {name, flavour, tus: [(src, [defines], objname)], link: [...]}.
    Compiles every missing object in parallel, links, returns {(name, flavour): path}."""
    jobs = {}
    for b in binaries:
        d = build_dir(b["flavour"])
        b["_objs"] = []
        for src, defines, objname in b["tus"]:
            obj = os.path.join(d, f"{objname}.{tu_key(src, defines)}.o")
            b["_objs"].append(obj)
            jobs[obj] = (b["flavour"], src, defines, obj)
    t0 = time.time()
    todo = [j for j in jobs.values() if not os.path.exists(j[3])]
    if todo:
        print(f"[build] compiling {len(todo)} translation units ({tree_hash()})", file=sys.stderr, flush=True)
    with ThreadPoolExecutor(JOBS) as ex:
        futs = [ex.submit(_compile, *j) for j in todo]
        for f in futs:
            f.result()
    out = {}
    for b in binaries:
        d = build_dir(b["flavour"])
        objs = b["_objs"]
        lk = hashlib.sha256(" ".join(objs).encode()).hexdigest()[:10]
        exe = os.path.join(d, f"{b['name']}.{lk}")
        if not os.path.exists(exe) or any(os.path.getmtime(o) > os.path.getmtime(exe) for o in objs):
            _link(b["flavour"], objs, exe, b.get("link", []))
        out[(b["name"], b["flavour"])] = exe
    os.utime(os.path.join(BUILD, tree_hash()), None)
    if todo:
        print(f"[build] done in {time.time() - t0:.1f}s", file=sys.stderr, flush=True)
    return out

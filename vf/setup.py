"""Set-up and baseline commands."""
import os
import shutil
import subprocess
import sys

from .build import VERIF, REPO, BUILD


def setup():
    ok = True
    for d in ("build", "build/run", "replays", "evidence"):
        os.makedirs(os.path.join(VERIF, d), exist_ok=True)
    for tool in ("g++", "python3", "cmake", "ctest"):
        if not shutil.which(tool):
            print(f"setup: missing tool {tool}", file=sys.stderr)
            ok = False
    # the sanitizer runtimes must link
    src = os.path.join(BUILD, "run", "probe.cpp")
    with open(src, "w") as f:
        f.write("#include <vector>\nint main(){std::vector<int> v(3); return v[1];}\n")
    for flags in (["-fsanitize=address"], ["-fsanitize=thread"], ["-fopenmp", "-march=x86-64-v3"], ["-fopenmp", "-march=native"]):
        p = subprocess.run(["g++", "-std=gnu++17"] + flags + [src, "-o", src + ".bin"], stdout=subprocess.PIPE, stderr=subprocess.STDOUT, text=True)
        if p.returncode != 0:
            print(f"setup: g++ {' '.join(flags)} does not work here:\n{p.stdout[-800:]}", file=sys.stderr)
            ok = False
    print("setup: ok" if ok else "setup: FAILED")
    return 0 if ok else 2


def baseline():
    """Configure + build the repository's CMake project with the guard OFF and run its test suite."""
    bdir = os.path.join(BUILD, "baseline")
    shutil.rmtree(bdir, ignore_errors=True)
    os.makedirs(bdir, exist_ok=True)
    gen = ["-G", "Ninja"] if shutil.which("ninja") else []
    cmds = [
        ["cmake", "-S", REPO, "-B", bdir, "-DCMAKE_BUILD_TYPE=RelWithDebInfo", "-DCMAKE_CXX_FLAGS=-Wno-error"] + gen,
        ["cmake", "--build", bdir, "--target", "tests", "-j", "16"],
    ]
    for c in cmds:
        print("+", " ".join(c), flush=True)
        rc = subprocess.call(c, stdout=subprocess.DEVNULL if c[1] == "--build" else None, stderr=subprocess.STDOUT if c[1] == "--build" else None)
        if rc != 0:
            print("baseline: build failed", flush=True)
            return 1
    # one run of the test binary (what `ctest` runs as test_all), with a JUnit report for the per-test-case listing
    exe = os.path.join(bdir, "test", "tests")
    junit = os.path.join(bdir, "junit.xml")
    print("+", exe, "-r junit -o", junit, flush=True)
    rc = subprocess.call([exe, "-r", "junit", "-o", junit], cwd=os.path.join(bdir, "test"))
    passed = failed = 0
    try:
        import xml.etree.ElementTree as ET
        for tc in ET.parse(junit).getroot().iter("testcase"):
            bad = tc.find("failure") is not None or tc.find("error") is not None
            print(("FAIL " if bad else "PASS ") + "tests.global::" + tc.get("name", "?"))
            failed += bad
            passed += not bad
    except Exception as e:  # noqa
        print("baseline: could not parse the JUnit report:", e)
        return 1
    print(f"baseline (guard PGM_INDEX_VERIF off): {passed} passed, {failed} failed, exit status of the test binary {rc}")
    return 0 if rc == 0 and failed == 0 and passed > 0 else 1

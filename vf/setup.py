"""Set-up and baseline commands."""
import os
import shutil
import subprocess
import sys

from .build import VERIF, REPO, BUILD


def setup():
    ok = True
    for d in ("build", "build/run", "replays", "evidence"):
        os.makedirs(os.path.join(VERIF, d), exist_ok=True)
    for tool in ("g++", "python3", "cmake", "ctest"):
        if not shutil.which(tool):
            print(f"setup: missing tool {tool}", file=sys.stderr)
            ok = False
    # the sanitizer runtimes must link
    src = os.path.join(BUILD, "run", "probe.cpp")
    with open(src, "w") as f:
        f.write("#include <vector>\nint main(){std::vector<int> v(3); return v[1];}\n")
    for flags in (["-fsanitize=address"], ["-fsanitize=thread"], ["-fopenmp", "-march=x86-64-v3"], ["-fopenmp", "-march=native"]):
        p = subprocess.run(["g++", "-std=gnu++17"] + flags + [src, "-o", src + ".bin"], stdout=subprocess.PIPE, stderr=subprocess.STDOUT, text=True)
        if p.returncode != 0:
            print(f"setup: g++ {' '.join(flags)} does not work here:\n{p.stdout[-800:]}", file=sys.stderr)
            ok = False
    print("setup: ok" if ok else "setup: FAILED")
    return 0 if ok else 2


def baseline():
    """Configure + build the repository's CMake project with the guard OFF and run its test suite."""
    bdir = os.path.join(BUILD, "baseline")
    shutil.rmtree(bdir, ignore_errors=True)
    os.makedirs(bdir, exist_ok=True)
    gen = ["-G", "Ninja"] if shutil.which("ninja") else []
    cmds = [
        ["cmake", "-S", REPO, "-B", bdir, "-DCMAKE_BUILD_TYPE=RelWithDebInfo", "-DCMAKE_CXX_FLAGS=-Wno-error"] + gen,
        ["cmake", "--build", bdir, "--target", "tests", "-j", "16"],
        ["ctest", "--test-dir", bdir, "-j8", "--timeout", "3000", "--output-on-failure"],
    ]
    for c in cmds:
        print("+", " ".join(c), flush=True)
        rc = subprocess.call(c)
        if rc != 0:
            return 1
    # per-test-case listing (the 45 Catch2 test cases of BASELINE.json)
    exe = os.path.join(bdir, "test", "tests")
    if os.path.exists(exe):
        subprocess.call([exe, "--list-test-names-only"])
    return 0

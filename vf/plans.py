"""What each check runs: engines (translation units per tier), per-property engine runs and budgets."""
import os

from .build import VERIF, REPO

E = os.path.join(VERIF, "engines")


def _grouped(engine, src, main, groups, defines=()):
    tus = [(os.path.join(E, main), list(defines) + [f'VF_ENGINE_NAME="{engine}"'], f"{engine}.main")]
    for g in groups:
        tus.append((os.path.join(E, src), list(defines) + [f"VF_GROUP={g}"], f"{engine}.g{g}"))
    return tus


# engine -> (quick groups, thorough groups, source, defines)
GROUPED = {
    "static_pgm": dict(src="static_pgm.cpp", quick=range(0, 8), thorough=range(0, 24), defines=()),
    "static_comp": dict(src="static_comp.cpp", quick=range(0, 6), thorough=range(0, 12), defines=("VF_WITH_VARIANTS",)),
    "static_bucket": dict(src="static_bucket.cpp", quick=range(0, 6), thorough=range(0, 12), defines=("VF_WITH_VARIANTS",)),
    "static_ef": dict(src="static_ef.cpp", quick=range(0, 4), thorough=range(0, 8), defines=("VF_WITH_VARIANTS",)),
}

# single- or few-TU engines: engine -> list of (source, defines, objname) ; link extras
SIMPLE = {
    "segmentation": dict(tus=[("segmentation.cpp", [], "segmentation")]),
    "dynamic": dict(tus=[("dynamic.cpp", [f"VF_GROUP={g}"], f"dynamic.g{g}") for g in range(4)] + [("dynamic_main.cpp", [], "dynamic.main")]),
    "mapped": dict(tus=[("mapped.cpp", [f"VF_GROUP={g}"], f"mapped.g{g}") for g in range(4)] + [("mapped_main.cpp", [], "mapped.main")]),
    "multidim": dict(tus=[("multidim.cpp", [f"VF_GROUP={g}"], f"multidim.g{g}") for g in range(4)] + [("multidim_main.cpp", [], "multidim.main")]),
    "copymove": dict(tus=[("copymove.cpp", [f"VF_GROUP={g}"], f"copymove.g{g}") for g in range(4)] + [("copymove_main.cpp", [], "copymove.main")]),
    "reject": dict(tus=[("reject.cpp", [f"VF_GROUP={g}"], f"reject.g{g}") for g in range(3)] + [("reject_main.cpp", [], "reject.main")]),
    "cinterface": dict(tus=[("cinterface.cpp", [], "cinterface"), (f"{REPO}/c-interface/cpgm.cpp", [], "cpgm")],
                       extra_flags=[f"-I{REPO}/c-interface"]),
    "concurrent": dict(tus=[("concurrent.cpp", [f"VF_GROUP={g}"], f"concurrent.g{g}") for g in range(3)] + [("concurrent_main.cpp", [], "concurrent.main")]),
}


def binary(engine, tier, flavour):
    if engine in GROUPED:
        g = GROUPED[engine]
        groups = list(g["thorough"] if tier == "thorough" else g["quick"])
        return dict(name=f"{engine}.{tier}", flavour=flavour,
                    tus=_grouped(engine, g["src"], "static_main.cpp", groups, g["defines"]))
    s = SIMPLE[engine]
    tus = []
    for src, defines, obj in s["tus"]:
        path = src if src.startswith("/") else os.path.join(E, src)
        tus.append((path, list(defines) + [f'VF_ENGINE_NAME="{engine}"'] + list(s.get("extra_flags", [])), obj))
    return dict(name=engine, flavour=flavour, tus=tus, link=list(s.get("link", [])))


def R(engine, flavour, cases, **kw):
    d = dict(engine=engine, flavour=flavour, cases=cases)
    d.update(kw)
    return d


ASSUME_COMMON = [
    "the oracle (std::lower_bound / std::map / brute force on the caller's data) and the compilers' sanitizer runtimes are trusted",
    "g++ 12, -std=gnu++17 -DNDEBUG as in the repository's own RelWithDebInfo build; x86-64 with and without AVX-512 code paths",
    "only the executions produced by this run are covered; nothing is claimed about inputs or configurations not generated",
]


def pgm_runs(prop, q_cases, t_cases):
    def runs(tier):
        if tier == "quick":
            return [R("static_pgm", "asan", q_cases), R("static_pgm", "v3", q_cases)]
        return [R("static_pgm", "asan", t_cases), R("static_pgm", "rel", t_cases * 2), R("static_pgm", "v3", t_cases * 2)]
    return runs


PLANS = {
    "C01": dict(
        runs=pgm_runs("C01", 1000, 6000),
        kinds={"range_malformed", "range_too_wide", "pos_below_lo", "first_occurrence_outside"},
        rule="case = one PGMIndex<K,Eps,EpsRec,Floating> instantiation x one generated sorted array (13 integer / 9 floating "
             "families incl. band-tight staircases, duplicate runs around eps, boundary keys, chunk-seam runs; n=1..5000, "
             "chunked cases 2^15..2^20 with 1..20 construction threads) x every distinct present key queried; non-trivial = "
             ">= 2 distinct keys and (>= 2 segments or a duplicate run); distinct = by hash of (keys, threads)",
        assumptions=ASSUME_COMMON + ["floating-key datasets outside the stated density domain are counted and skipped"],
    ),
    "C02": dict(
        runs=pgm_runs("C02", 1000, 6000),
        kinds={"range_malformed", "lower_bound_mismatch"},
        rule="as C01, but every case is queried with every distinct key, its predecessor/successor value, gap midpoints, "
             "lowest(), first-1, last+1, max-1, random and far-away keys, plus the neighbourhood of every chunk seam; "
             "non-trivial additionally requires >= 1 absent query judged",
        assumptions=ASSUME_COMMON,
    ),
    "C07": dict(
        runs=pgm_runs("C07", 600, 4000),
        kinds={"routing_deviation", "routing_scan_length", "routing_window", "routing_hook_mismatch", "routing_trace_length",
               "level_size_bound", "height_bound", "segments_count_bound"},
        rule="as C02, n up to 20000 in the non-chunked cases; per query the H2 routing trace of every level is judged "
             "(deviation <= EpsRec+1, keys compared <= 2*EpsRec+3 / window inside the bound, cross-checked against an "
             "independent recomputation of the responsible segment); per index the level-size recurrence and the height "
             "bound; non-trivial = height >= 2",
        assumptions=ASSUME_COMMON,
    ),
}


def variant_runs(engine, q_cases, t_cases):
    def runs(tier):
        if tier == "quick":
            return [R(engine, "asan", q_cases), R(engine, "v3", q_cases)]
        return [R(engine, "asan", t_cases), R(engine, "rel", t_cases * 2), R(engine, "v3", t_cases * 2)]
    return runs


VARIANT_KINDS = {"range_malformed", "range_too_wide", "pos_below_lo", "first_occurrence_outside", "lower_bound_mismatch"}

PLANS["C08"] = dict(
    runs=variant_runs("static_comp", 500, 4000),
    kinds=VARIANT_KINDS,
    rule="case = one CompressedPGMIndex<K,Eps,EpsRec,Floating> instantiation (EpsRec 0, small, 256 = binary-search routing; "
         "8..64-bit unsigned keys) x one generated sorted array (families of C01; 1/64 of the cases chunked, n >= 2^15) x the "
         "full query set of C02; oracle = C01 and C02 clauses with width <= 2*Eps+2 for every query; non-trivial = >= 2 "
         "distinct keys, (>= 2 segments or a duplicate run) and >= 1 absent query",
    assumptions=ASSUME_COMMON,
)
PLANS["C09"] = dict(
    runs=variant_runs("static_bucket", 500, 4000),
    kinds=VARIANT_KINDS | {"below_first_not_empty_at_0", "above_last_not_empty_at_n"},
    rule="case = one BucketingPGMIndex<K,Eps,TopLevelSize,TopLevelBitSize,Floating> instantiation (power-of-two and other "
         "table sizes, dynamic and fixed cell widths) x one sorted array (families of C01 plus keys on/around first+i*step "
         "and spans of the whole type) x the full query set; oracle = C01 and C02 clauses, plus {0,0}/{n,n} outside "
         "[first,last]; a fixed cell width too small for the segment count is a documented rejection (counted, not judged)",
    assumptions=ASSUME_COMMON,
)
PLANS["C10"] = dict(
    runs=variant_runs("static_ef", 500, 4000),
    kinds=VARIANT_KINDS,
    rule="case = one EliasFanoPGMIndex<K,Eps,Floating> instantiation (16..64-bit keys) x one sorted array (families of C01 "
         "plus segment-key sets of chosen density so that the Elias-Fano low-bit width varies; the widths seen are counted) "
         "x the full query set; oracle = C01 and C02 clauses",
    assumptions=ASSUME_COMMON,
)

# properties not claimed (filled while the framework is being built; empty once every engine exists)
NOT_APPLICABLE = {}

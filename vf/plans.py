"""What each check runs: engines (translation units per tier), per-property engine runs and budgets."""
import os

from .build import VERIF, REPO

E = os.path.join(VERIF, "engines")


def _grouped(engine, src, main, groups, defines=()):
    tus = [(os.path.join(E, main), list(defines) + [f'VF_ENGINE_NAME="{engine}"'], f"{engine}.main")]
    for g in groups:
        tus.append((os.path.join(E, src), list(defines) + [f"VF_GROUP={g}"], f"{engine}.g{g}"))
    return tus


# engine -> (quick groups, thorough groups, source, defines)
GROUPED = {
    "static_pgm": dict(src="static_pgm.cpp", quick=range(0, 8), thorough=range(0, 24), defines=()),
    "static_comp": dict(src="static_comp.cpp", quick=range(0, 6), thorough=range(0, 12), defines=("VF_WITH_VARIANTS",)),
    "static_bucket": dict(src="static_bucket.cpp", quick=range(0, 6), thorough=range(0, 12), defines=("VF_WITH_VARIANTS",)),
    "static_ef": dict(src="static_ef.cpp", quick=range(0, 4), thorough=range(0, 8), defines=("VF_WITH_VARIANTS",)),
}

# single- or few-TU engines: engine -> list of (source, defines, objname) ; link extras
SIMPLE = {
    "segmentation": dict(tus=[("segmentation.cpp", [], "segmentation")]),
    "dynamic": dict(tus=[("dynamic.cpp", [f"VF_GROUP={g}"], f"dynamic.g{g}") for g in range(4)] + [("dynamic_main.cpp", [], "dynamic.main")]),
    "mapped": dict(tus=[("mapped.cpp", [f"VF_GROUP={g}"], f"mapped.g{g}") for g in range(4)] + [("mapped_main.cpp", [], "mapped.main")]),
    "multidim": dict(tus=[("multidim.cpp", [f"VF_GROUP={g}"], f"multidim.g{g}") for g in range(4)] + [("multidim_main.cpp", [], "multidim.main")]),
    "copymove": dict(tus=[("copymove.cpp", [f"VF_GROUP={g}"], f"copymove.g{g}") for g in range(4)] + [("copymove_main.cpp", [], "copymove.main")]),
    "reject": dict(tus=[("reject.cpp", [f"VF_GROUP={g}"], f"reject.g{g}") for g in range(3)] + [("reject_main.cpp", [], "reject.main")]),
    "cinterface": dict(tus=[("cinterface.cpp", [], "cinterface"), (f"{REPO}/c-interface/cpgm.cpp", [], "cpgm")],
                       extra_flags=[f"-I{REPO}/c-interface"]),
    "concurrent": dict(tus=[("concurrent.cpp", [f"VF_GROUP={g}"], f"concurrent.g{g}") for g in range(3)] + [("concurrent_main.cpp", [], "concurrent.main")]),
}


def binary(engine, tier, flavour):
    if engine in GROUPED:
        g = GROUPED[engine]
        groups = list(g["thorough"] if tier == "thorough" else g["quick"])
        return dict(name=f"{engine}.{tier}", flavour=flavour,
                    tus=_grouped(engine, g["src"], "static_main.cpp", groups, g["defines"]))
    s = SIMPLE[engine]
    tus = []
    for src, defines, obj in s["tus"]:
        path = src if src.startswith("/") else os.path.join(E, src)
        tus.append((path, list(defines) + [f'VF_ENGINE_NAME="{engine}"'] + list(s.get("extra_flags", [])), obj))
    return dict(name=engine, flavour=flavour, tus=tus, link=list(s.get("link", [])))


def R(engine, flavour, cases, **kw):
    d = dict(engine=engine, flavour=flavour, cases=cases)
    d.update(kw)
    return d


ASSUME_COMMON = [
    "the oracle (std::lower_bound / std::map / brute force on the caller's data) and the compilers' sanitizer runtimes are trusted",
    "g++ 12, -std=gnu++17 -DNDEBUG as in the repository's own RelWithDebInfo build; x86-64 with and without AVX-512 code paths",
    "only the executions produced by this run are covered; nothing is claimed about inputs or configurations not generated",
]


def pgm_runs(prop, q_cases, t_cases):
    def runs(tier):
        if tier == "quick":
            return [R("static_pgm", "asan", q_cases), R("static_pgm", "v3", q_cases)]
        return [R("static_pgm", "asan", t_cases), R("static_pgm", "rel", t_cases * 2), R("static_pgm", "v3", t_cases * 2)]
    return runs


PLANS = {
    "C01": dict(
        runs=pgm_runs("C01", 1000, 6000),
        kinds={"range_malformed", "range_too_wide", "pos_below_lo", "first_occurrence_outside"},
        rule="case = one PGMIndex<K,Eps,EpsRec,Floating> instantiation x one generated sorted array (13 integer / 9 floating "
             "families incl. band-tight staircases, duplicate runs around eps, boundary keys, chunk-seam runs; n=1..5000, "
             "chunked cases 2^15..2^20 with 1..20 construction threads) x every distinct present key queried; non-trivial = "
             ">= 2 distinct keys and (>= 2 segments or a duplicate run); distinct = by hash of (keys, threads)",
        assumptions=ASSUME_COMMON + ["floating-key datasets outside the stated density domain are counted and skipped"],
    ),
    "C02": dict(
        runs=pgm_runs("C02", 1000, 6000),
        kinds={"range_malformed", "lower_bound_mismatch"},
        rule="as C01, but every case is queried with every distinct key, its predecessor/successor value, gap midpoints, "
             "lowest(), first-1, last+1, max-1, random and far-away keys, plus the neighbourhood of every chunk seam; "
             "non-trivial additionally requires >= 1 absent query judged",
        assumptions=ASSUME_COMMON,
    ),
    "C07": dict(
        runs=pgm_runs("C07", 600, 4000),
        kinds={"routing_deviation", "routing_scan_length", "routing_window", "routing_hook_mismatch", "routing_trace_length",
               "level_size_bound", "height_bound", "segments_count_bound"},
        rule="as C02, n up to 20000 in the non-chunked cases; per query the H2 routing trace of every level is judged "
             "(deviation <= EpsRec+1, keys compared <= 2*EpsRec+3 / window inside the bound, cross-checked against an "
             "independent recomputation of the responsible segment); per index the level-size recurrence and the height "
             "bound; non-trivial = height >= 2",
        assumptions=ASSUME_COMMON,
    ),
}

# properties not claimed (filled while the framework is being built; empty once every engine exists)
NOT_APPLICABLE = {}

"""What each check runs: engines (translation units per tier), per-property engine runs and budgets."""
import os

from .build import VERIF, REPO

E = os.path.join(VERIF, "engines")


def _grouped(engine, src, main, groups, defines=()):
    tus = [(os.path.join(E, main), list(defines) + [f'VF_ENGINE_NAME="{engine}"'], f"{engine}.main")]
    for g in groups:
        tus.append((os.path.join(E, src), list(defines) + [f"VF_GROUP={g}"], f"{engine}.g{g}"))
    return tus


# engine -> (quick groups, thorough groups, source, defines)
GROUPED = {
    "static_pgm": dict(src="static_pgm.cpp", quick=range(0, 8), thorough=range(0, 24), defines=()),
    "static_comp": dict(src="static_comp.cpp", quick=range(0, 6), thorough=range(0, 12), defines=("VF_WITH_VARIANTS",)),
    "static_bucket": dict(src="static_bucket.cpp", quick=range(0, 6), thorough=range(0, 12), defines=("VF_WITH_VARIANTS",)),
    "static_ef": dict(src="static_ef.cpp", quick=range(0, 4), thorough=range(0, 8), defines=("VF_WITH_VARIANTS",)),
}

# single- or few-TU engines: engine -> list of (source, defines, objname) ; link extras
SIMPLE = {
    "segmentation": dict(tus=[("segmentation.cpp", [f"VF_GROUP={g}"], f"segmentation.g{g}") for g in range(5)]),
    "dynamic": dict(tus=[("dynamic.cpp", [f"VF_GROUP={g}"], f"dynamic.g{g}") for g in range(4)] + [("dynamic_main.cpp", [], "dynamic.main")]),
    "mapped": dict(tus=[("mapped.cpp", [f"VF_GROUP={g}"], f"mapped.g{g}") for g in range(4)] + [("mapped_main.cpp", [], "mapped.main")]),
    "multidim": dict(tus=[("multidim.cpp", [f"VF_GROUP={g}"], f"multidim.g{g}") for g in range(4)] + [("multidim_main.cpp", [], "multidim.main")]),
    "copymove": dict(tus=[("copymove.cpp", [f"VF_GROUP={g}"], f"copymove.g{g}") for g in range(4)] + [("copymove_main.cpp", [], "copymove.main")]),
    "reject": dict(tus=[("reject.cpp", [f"VF_GROUP={g}"], f"reject.g{g}") for g in range(3)] + [("reject_main.cpp", [], "reject.main")]),
    "cinterface": dict(tus=[("cinterface.cpp", [], "cinterface"), (f"{REPO}/c-interface/cpgm.cpp", [], "cpgm")],
                       extra_flags=[f"-I{REPO}/c-interface"]),
    "concurrent": dict(tus=[("concurrent.cpp", [f"VF_GROUP={g}"], f"concurrent.g{g}") for g in range(3)] + [("concurrent_main.cpp", [], "concurrent.main")]),
}


def binary(engine, tier, flavour):
    if engine in GROUPED:
        g = GROUPED[engine]
        groups = list(g["thorough"] if tier == "thorough" else g["quick"])
        return dict(name=f"{engine}.{tier}", flavour=flavour,
                    tus=_grouped(engine, g["src"], "static_main.cpp", groups, g["defines"]))
    s = SIMPLE[engine]
    tus = []
    for src, defines, obj in s["tus"]:
        path = src if src.startswith("/") else os.path.join(E, src)
        tus.append((path, list(defines) + [f'VF_ENGINE_NAME="{engine}"'] + list(s.get("extra_flags", [])), obj))
    return dict(name=engine, flavour=flavour, tus=tus, link=list(s.get("link", [])))


def cov_exclude(engine):
    """configurations left out of the -O0 coverage slice (too slow unoptimised)"""
    return "#huge,#big,#enum,#sweep,#segs,#giant" if engine.startswith("static_") else ("#enum" if engine == "dynamic" else "")


def R(engine, flavour, cases, **kw):
    d = dict(engine=engine, flavour=flavour, cases=cases)
    d.update(kw)
    return d


def Q(engine, flavour, cases, **kw):
    """quick-tier run of a static engine: the bounded-exhaustive #enum configurations are left to the thorough tier, and the
    #giant cases (4*10^7 keys) run in the optimised flavours only"""
    return R(engine, flavour, cases, exclude="#enum,#giant" if flavour == "asan" else "#enum", **kw)


ASSUME_COMMON = [
    "the oracle (std::lower_bound / std::map / brute force on the caller's data) and the compilers' sanitizer runtimes are trusted",
    "g++ 12, -std=gnu++17 -DNDEBUG as in the repository's own RelWithDebInfo build; x86-64 with and without AVX-512 code paths",
    "only the executions produced by this run are covered; nothing is claimed about inputs or configurations not generated",
]


def archer_run(cases):
    """chunked builds only, under clang + ThreadSanitizer + Archer: a data race inside make_segmentation_par"""
    return R("static_pgm", "tsanomp", cases, configs="#chunk", shards=8, corpus=False, samples=0)


def pgm_runs(prop, q_cases, t_cases, archer=False):
    def runs(tier):
        if tier == "quick":
            r = [Q("static_pgm", "asan", q_cases), Q("static_pgm", "v3", q_cases)]
            return r + ([archer_run(250)] if archer else [])
        r = [R("static_pgm", "asan", t_cases, exclude="#giant"), R("static_pgm", "rel", t_cases * 2), R("static_pgm", "v3", t_cases * 2)]
        return r + ([archer_run(1500)] if archer else [])
    return runs


PLANS = {
    "C01": dict(
        runs=pgm_runs("C01", 1000, 6000),
        kinds={"range_malformed", "range_too_wide", "pos_below_lo", "first_occurrence_outside"},
        rule="case = one PGMIndex<K,Eps,EpsRec,Floating> instantiation x one generated sorted array (13 integer / 9 floating "
             "families incl. band-tight staircases, duplicate runs around eps, boundary keys, chunk-seam runs; n=1..5000, "
             "chunked cases 2^15..2^20 with 1..20 construction threads; further configurations: #huge (> 2^24 keys), #big "
             "(0.4-3.5 M keys of uneven density), #sweep (70 shrinking prefixes), #giant (4*10^7 equally spaced keys at 1+8 lengths, optimised "
             "flavours), gentle curves whose hulls exceed 2^16 vertices, thorough: #enum bounded-exhaustive; the queried object "
             "is the constructed one or a copied / moved / assigned / relocated one) x every distinct present key queried; non-trivial = "
             ">= 2 distinct keys and (>= 2 segments or a duplicate run); distinct = by hash of (keys, threads)",
        assumptions=ASSUME_COMMON + ["floating-key datasets outside the stated density domain are counted and skipped"],
    ),
    "C02": dict(
        runs=pgm_runs("C02", 1000, 6000, archer=True),
        kinds={"range_malformed", "lower_bound_mismatch", "tsan_report"},
        rule="as C01, but every case is queried with every distinct key, its predecessor/successor value, gap midpoints, "
             "lowest(), first-1, last+1, max-1, random and far-away keys, plus the neighbourhood of every chunk seam; "
             "non-trivial additionally requires >= 1 absent query judged; the chunked (>= 2^15 keys, 2..20 threads) cases are "
             "additionally built and queried under clang ThreadSanitizer + Archer: a data race inside the parallel builder makes the "
             "constructed index depend on the schedule and is reported as tsan_report",
        assumptions=ASSUME_COMMON,
    ),
    "C07": dict(
        runs=pgm_runs("C07", 600, 4000),
        kinds={"routing_deviation", "routing_scan_length", "routing_window", "routing_hook_mismatch", "routing_trace_length",
               "level_size_bound", "height_bound", "segments_count_bound", "top_level_exceeds_scan_budget"},
        rule="as C02, n up to 20000 in the non-chunked cases; per query the H2 routing trace of every level is judged "
             "(deviation <= EpsRec+1, keys compared <= 2*EpsRec+3 / window inside the bound, cross-checked against an "
             "independent recomputation of the responsible segment); per index the level-size recurrence and the height "
             "bound; non-trivial = height >= 2",
        assumptions=ASSUME_COMMON,
    ),
}


def variant_runs(engine, q_cases, t_cases):
    def runs(tier):
        if tier == "quick":
            return [Q(engine, "asan", q_cases), Q(engine, "v3", q_cases)]
        return [R(engine, "asan", t_cases, exclude="#giant"), R(engine, "rel", t_cases * 2), R(engine, "v3", t_cases * 2)]
    return runs


VARIANT_KINDS = {"range_malformed", "range_too_wide", "pos_below_lo", "first_occurrence_outside", "lower_bound_mismatch"}

PLANS["C08"] = dict(
    runs=variant_runs("static_comp", 1500, 4000),
    kinds=VARIANT_KINDS,
    rule="case = one CompressedPGMIndex<K,Eps,EpsRec,Floating> instantiation (EpsRec 0, small, 256 = binary-search routing; "
         "8..64-bit unsigned keys) x one generated sorted array (families of C01; 1/64 of the cases chunked, n >= 2^15) x the "
         "full query set of C02; oracle = C01 and C02 clauses with width <= 2*Eps+2 for every query; non-trivial = >= 2 "
         "distinct keys, (>= 2 segments or a duplicate run) and >= 1 absent query",
    assumptions=ASSUME_COMMON,
)
PLANS["C09"] = dict(
    runs=variant_runs("static_bucket", 1500, 4000),
    kinds=VARIANT_KINDS | {"below_first_not_empty_at_0", "above_last_not_empty_at_n"},
    rule="case = one BucketingPGMIndex<K,Eps,TopLevelSize,TopLevelBitSize,Floating> instantiation (power-of-two and other "
         "table sizes, dynamic and fixed cell widths) x one sorted array (families of C01 plus keys on/around first+i*step "
         "and spans of the whole type) x the full query set; oracle = C01 and C02 clauses, plus {0,0}/{n,n} outside "
         "[first,last]; a fixed cell width too small for the segment count is a documented rejection (counted, not judged)",
    assumptions=ASSUME_COMMON,
)
PLANS["C10"] = dict(
    runs=variant_runs("static_ef", 1500, 4000),
    kinds=VARIANT_KINDS,
    rule="case = one EliasFanoPGMIndex<K,Eps,Floating> instantiation (16..64-bit keys) x one sorted array (families of C01 "
         "plus segment-key sets of chosen density so that the Elias-Fano low-bit width varies; the widths seen are counted) "
         "x the full query set; oracle = C01 and C02 clauses",
    assumptions=ASSUME_COMMON,
)


def seg_runs(prop, q, t):
    def runs(tier):
        if tier == "quick":
            return [R("segmentation", "asan", q)]
        return [R("segmentation", "asan", t), R("segmentation", "rel", t * 3)]
    return runs


PLANS["C03"] = dict(
    runs=seg_runs("C03", 3000, 12000),
    kinds={"returned_count_mismatch", "recorder_scopes", "recorded_points_not_increasing", "missing_key_point", "missing_closing_point",
           "segments_not_increasing", "partition_broken", "residual_exceeds_epsilon"},
    rule="case = one call of make_segmentation_par for one key type (u8..i64, float, double), one epsilon in {0,1,2,3,4,8,16,64,"
         "128,1024}, one generated sorted array (families of C01 plus alternating-band and long-segment inputs; chunked cases "
         "n = 2^15..2^20 with 1..20 chunks and runs across the chunk boundaries) with the add_point recorder armed; oracle: "
         "segments in increasing first-key order, the recorded points are partitioned by the segments, every point within "
         "eps + 1/2 (exact 128-bit rational arithmetic) resp. eps + 1 (+1e-6, long double, floating keys) of the reported line, "
         "every distinct key recorded at its first-occurrence rank, closing point present; non-trivial = >= 2 segments or a "
         "segment with >= 3 points",
    assumptions=ASSUME_COMMON + ["the recorder (hook H1) reports exactly what add_point received: it is a 3-line addition in front of the call"],
    technique="runtime monitoring: hooked event recorder (points fed to the builder) + exact rational oracle over generated inputs, under AddressSanitizer",
)
PLANS["C04"] = dict(
    runs=lambda tier: seg_runs("C04", 2000, 8000)(tier) + [(Q if tier == "quick" else R)("static_pgm", "asan", 150 if tier == "quick" else 1500)],
    kinds={"segment_infeasible", "segment_not_maximal", "segment_starts_too_close", "too_many_nonmaximal_segments",
           "segment_count_not_minimal", "segments_count_bound", "level_size_bound", "height_bound", "partition_broken",
           "segments_not_increasing", "recorded_points_not_increasing", "recorder_scopes", "returned_count_mismatch"},
    rule="integer keys; case as in C03; oracle independent of the builder: hull-sandwich feasibility test in 128-bit integers; "
         "every segment feasible on its own points, infeasible with the next segment's first point added (except the last "
         "segment of each chunk), number of segments == greedy optimum for sequential builds and <= optimum + chunks - 1 "
         "otherwise, consecutive starts > 2*eps ranks apart, count <= n/(2eps+1)+c+1; plus segments_count() / upper-level sizes "
         "of PGMIndex builds (static_pgm engine); non-trivial = >= 2 segments",
    assumptions=ASSUME_COMMON + ["the recorder (hook H1) reports exactly what add_point received"],
    technique="runtime monitoring: hooked event recorder + independent exact feasibility oracle (convex-hull sandwich) over generated inputs",
)


def dyn_runs(q, t):
    def runs(tier):
        if tier == "quick":
            return [R("dynamic", "asan", q, exclude="#enum")]
        return [R("dynamic", "asan", t), R("dynamic", "rel", t * 2)]
    return runs


DYN_RULE = ("case = one DynamicPGMIndex<K,V,PGMType> instantiation (8: u16..i64 keys; arithmetic, pointer and std::string values; "
            "PGMType eps 1..64, eps_rec 0/1/4/64) x run-time base 2..128, buffer_level 0..3, index_level 0 / min_level+1 / +2 x one "
            "history: bulk-load (empty or sorted pairs, repeated keys) then up to 400 (quick) / 5000 (thorough) "
            "insert_or_assign / erase operations from 7 patterns (random on small key spaces, ascending, descending, "
            "insert-all-then-erase-all, erase-only, tombstone shadowing script, hot keys), keys at lowest() and max-1; ")
PLANS["C05"] = dict(
    runs=dyn_runs(800, 2000),
    kinds={"find_mismatch", "count_mismatch", "lower_bound_mismatch"},
    rule=DYN_RULE + "observation = find / count / lower_bound of probe keys (keys of the history +-1, extremes, random) against std::map "
         "after every one of the first ops, then every 5th/7th, full probe at the end; non-trivial = the history merged into "
         "level >= min_level+2 and erased >= 1 live key",
    assumptions=ASSUME_COMMON,
    technique="runtime monitoring: history + executable sequential model (std::map) checked at every observation, under AddressSanitizer",
)
PLANS["C06"] = dict(
    runs=dyn_runs(800, 2000),
    kinds={"iteration_mismatch", "iteration_does_not_terminate", "iteration_too_short", "range_mismatch", "size_mismatch", "empty_mismatch"},
    rule=DYN_RULE + "observation = full begin()..end() walk, walks from lower_bound(k) for probe keys incl. the largest key and "
         "keys above it, range(lo,hi) for probe pairs / whole space / single key compared in both directions, size(), empty(), "
         "each against std::map with a logical step bound; non-trivial = an observation was taken with >= 3 non-empty levels "
         "and >= 1 live tombstone",
    assumptions=ASSUME_COMMON,
    technique="runtime monitoring: history + executable sequential model (std::map) checked at every observation, under AddressSanitizer",
)
PLANS["C15"] = dict(
    runs=dyn_runs(800, 2000),
    kinds={"lsm_invariant"},
    rule=DYN_RULE + "after the bulk-load and after EVERY update the private state is read through the friend accessor (hook H3): "
         "levels strictly sorted, buffer / level capacities, nothing beyond used_levels, every non-empty level >= index level owns "
         "an index with n == level size, first_key == first key that brackets every key of the level, emptied levels' indexes "
         "reset; non-trivial = >= 2 indexed levels non-empty at some point",
    assumptions=ASSUME_COMMON + ["state is read only between API calls (quiescent points)"],
    technique="runtime monitoring: structural-invariant walker on hooked private state after every operation of generated histories",
)


def mapped_runs(q, t):
    def runs(tier):
        if tier == "quick":
            return [R("mapped", "asan", q)]
        return [R("mapped", "asan", t), R("mapped", "v3", t * 2)]
    return runs


MAPPED_RULE = ("case = one MappedPGMIndex<K,Eps,EpsRec> instantiation (12: i16..u64, eps 1..128, eps_rec 0/1/4) x one sorted array "
               "(half: families of C01; half: runs of equal keys of length 1,2,3,2^j-1,2^j,2^j+1,eps,2eps+2,2eps+3,10eps, first "
               "key negative/zero/positive, a single run covering the file; 1/3 of the files padded to end on a page boundary in "
               "front of a PROT_NONE guard page) x the five objects {from range, from raw file, reopen A, reopen B, reopen A "
               "again} constructed in a random valid order and alive simultaneously; the range given by vector, deque or reverse "
               "iterators; output names sometimes pre-existing and longer; 1/25 of the cases with >= 2^15 keys, an off-trend "
               "tail, a per-case OpenMP thread count and sometimes only one of the two creation paths; ")
PLANS["C11"] = dict(
    runs=mapped_runs(600, 2000),
    kinds={"lower_bound_mismatch", "upper_bound_mismatch", "count_mismatch", "contains_mismatch", "exposed_sequence_differs"},
    rule=MAPPED_RULE + "oracle: lower_bound / upper_bound / count / contains vs the std algorithms on the source vector for the "
         "full query set of C02, begin()/end()/size() expose exactly the sequence; non-trivial = a run longer than 2eps+2 and >= 1 "
         "absent query",
    assumptions=ASSUME_COMMON,
)
PLANS["C12"] = dict(
    runs=mapped_runs(600, 2000),
    kinds={"files_differ", "reopen_altered_file", "header_fields_differ", "sequence_differs", "answers_differ_between_objects"},
    rule=MAPPED_RULE + "oracle: bytes(A) == bytes(B); bytes, size and mtime of a file unchanged by every reopen; n, first_key, "
         "levels_offsets, segments, size(), file size identical across the five objects (read through a subclass); all query "
         "answers of all objects equal the std algorithms on the source vector; non-trivial = first key != 0 and >= 2 segments",
    assumptions=ASSUME_COMMON + ["files live in /verif/build/run on the local file system"],
)


def md_runs(q, t):
    def runs(tier):
        if tier == "quick":
            return [R("multidim", "asan", q)]
        return [R("multidim", "asan", t), R("multidim", "rel", t * 2)]
    return runs


MD_RULE = ("case = one MultidimensionalPGMIndex<D,T,Eps,EpsRec> instantiation (15: D 2..4, uint32/uint64, eps 1..64 incl. non-powers of "
           "two, eps_rec 0/2/4) x one point multiset (dense grids with duplicates, sparse uniform, coordinates at the encoder's "
           "maximum, clusters, regularly spaced far-apart clusters, points on a line, tiny sets, two families of >= 2^15 points "
           "built by the chunked builder; points handed over as tuples of T or of a narrower type; the queried object as "
           "constructed or copied / moved / assigned) ")
PLANS["C13"] = dict(
    runs=md_runs(800, 2500),
    kinds={"point_outside_box", "not_in_morton_order", "range_does_not_terminate", "range_result_mismatch"},
    rule=MD_RULE + "x 24/40 boxes (full space, single cells, one-cell slabs, stored corners, boxes reaching the largest stored "
         "point, thin boxes that force the Z-order skip); oracle: brute force over the multiset (multiplicities), codes "
         "non-decreasing by an independent bit interleaver, <= n+1 increments; non-trivial = a skip-eligible run (> 64 "
         "consecutive out-of-box codes) or a duplicate point inside a box",
    assumptions=ASSUME_COMMON,
)
PLANS["C14"] = dict(
    runs=md_runs(2000, 5000),
    kinds={"contains_mismatch"},
    rule=MD_RULE + "x membership probes: every stored point (capped), its axis neighbours, the origin, the maximum point, points "
         "just above the largest stored code, random encodable points; oracle: multiset membership; non-trivial = absent points "
         "between stored codes and outside them were judged",
    assumptions=ASSUME_COMMON,
)


PLANS["C19"] = dict(
    runs=lambda tier: [R("copymove", "asan", 630 if tier == "quick" else 6300)],
    kinds={"copy_answers_differ", "asan_report"},
    rule="case = one class instantiation (15: PGMIndex x3, CompressedPGMIndex x3 incl. eps_rec 0 and 256, BucketingPGMIndex x2, "
         "EliasFanoPGMIndex x2, MultidimensionalPGMIndex x2, DynamicPGMIndex x3 with arithmetic / std::string / pointer values) "
         "x one generated dataset or history x one of 7 operations {copy ctor, copy assignment over an empty / a populated object, "
         "move ctor, move assignment over empty / populated, copy of a copy} (skipped and counted where the class does not provide "
         "it) x one of 3 aftermaths {destroy the source and recycle its memory, modify the source, keep it}; oracle: every answer "
         "of the derived object (search / contains + box walks / find + lower_bound + iteration + range + size) equals the "
         "source's recorded answers, and AddressSanitizer reports nothing; non-trivial = source destroyed or modified before the "
         "copy is queried",
    assumptions=ASSUME_COMMON + ["use-after-free is observed by AddressSanitizer (quarantine) or through changed answers after the freed blocks were recycled"],
    technique="runtime monitoring: AddressSanitizer + answer digests over enumerated copy/move/destroy orders",
)


PLANS["C20"] = dict(
    runs=lambda tier: [R("reject", "asan", 123 if tier == "quick" else 984),
                       R("cinterface", "asan", 123 if tier == "quick" else 984, configs="c/static")],
    level="fault_enumeration",
    kinds={"reserved_key_not_rejected", "unsorted_bulk_load_not_rejected", "bad_base_not_rejected", "reserved_value_in_bulk_load_not_rejected",
           "reserved_value_insert_not_rejected", "rejected_insert_changed_container", "range_lo_gt_hi_not_rejected", "wide_coordinate_not_rejected",
           "non_increasing_point_not_rejected", "negative_epsilon_not_rejected", "c_create_accepted_reserved_value", "asan_report"},
    rule="enumeration of single precondition violations: the reserved key (max / +inf, 1..3 copies) after valid data of every length "
         "0..40 for PGMIndex (5 key types incl. float/double), Compressed, Bucketing, Elias-Fano, Mapped (range and raw-file "
         "constructors) and both constructors of each; one descent at every position of bulk-load ranges of length 2..40; every "
         "base 3..255 that is not a power of two (empty and bulk constructors); the reserved mapped value at every indexed position "
         "of bulk loads of length 1..40 and at every step of 60-operation histories (then walk + every level compared with the "
         "pre-call snapshot); range(lo,hi) with lo > hi; a too-wide coordinate at every point position and axis (D 2..4); a "
         "non-increasing x at every position inside a segment (eps 0,1,4,64) and negative epsilon; each must raise exactly the "
         "documented exception category. A case = one sub-family x one length; every case is non-trivial (one precondition broken); "
         "exhaustive over positions for the stated lengths, not over data values",
    level_text="fault enumeration: each documented precondition is violated once, at every position where it can be violated for the "
               "stated lengths, against the real constructors / calls compiled from the working tree under AddressSanitizer; the "
               "observed exception category and the container state after the rejected call are the oracle.",
    assumptions=ASSUME_COMMON,
    technique="runtime monitoring: enumerated invalid inputs, exception-category oracle and state snapshot comparison, under AddressSanitizer",
)


PLANS["C18"] = dict(
    runs=lambda tier: ([R("cinterface", "asan", 1000), R("cinterface", "v3", 1000)] if tier == "quick" else
                       [R("cinterface", "asan", 4000), R("cinterface", "rel", 8000), R("cinterface", "v3", 8000)]),
    kinds={"range_malformed", "range_too_wide", "pos_below_lo", "first_occurrence_outside", "lower_bound_mismatch",
           "c_create_accepted_reserved_value", "c_create_returned_null", "c_dynamic_create_returned_null", "c_iteration_mismatch",
           "c_iteration_does_not_terminate", "c_iteration_too_short", "c_iterator_next_after_end", "c_find_mismatch", "c_size_mismatch"},
    rule="c-interface/cpgm.cpp compiled from the tree and called through cpgm.h only. static: int32/int64/uint32/uint64 x run-time "
         "epsilon in {1,2,3,7,64,1000,4096} x one sorted array (families of C01) x the full query set of C02, oracle = C01 and C02 "
         "clauses with width <= 2*epsilon+2; create on data with the reserved value must return NULL; non-trivial = more than "
         "2*eps+2 distinct keys, eps != 1 and an absent query. dynamic: histories of create / create_empty / insert_or_assign / "
         "erase / find / size / begin / lower_bound / iterator_next / iterator_destroy against std::map (find value, walks "
         "enumerate the map tail exactly, then false and false again, size); non-trivial = more live keys than the default buffer "
         "holds (>= 1 merge)",
    assumptions=ASSUME_COMMON,
)


def tsan_post(task, prop, seed):
    """Race reports printed by ThreadSanitizer that the in-process hook did not attribute to a case (belt and braces)."""
    import re
    text = getattr(task, "stderr_all", "")
    out = []
    blocks = re.findall(r"WARNING: ThreadSanitizer: [^\n]*\n(?:.*\n){0,40}?SUMMARY: ThreadSanitizer: [^\n]*", text)
    seen = set()
    attributed = any(r.get("kind") == "tsan_report" for r in task.records if r.get("t") == "violation")
    for b in blocks:
        key = re.sub(r"0x[0-9a-f]+|\d+", "", b.split("\n")[-1])
        if key in seen:
            continue
        seen.add(key)
        task.tsan_blocks = getattr(task, "tsan_blocks", []) + [b[:3000]]
        if not attributed:
            out.append(dict(t="violation", prop=prop, config="(unattributed)", case=-1, seed=seed, kind="tsan_report", region="",
                            detail=dict(summary=b.split("\n")[-1]), stderr=b[:3000]))
    return out


def conc_evidence(tasks, summaries):
    blocks = []
    for t in tasks:
        blocks += getattr(t, "tsan_blocks", [])
    return dict(tsan_report_blocks=len(blocks), tsan_first_reports=blocks[:3])


PLANS["C16"] = dict(
    runs=lambda tier: [R("concurrent", "tsan", 24 if tier == "quick" else 160, post=tsan_post, shards=16)],
    kinds={"tsan_report", "concurrent_result_differs"},
    rule="case = one shared object (16 instantiations: PGMIndex x4 incl. binary-search routing and floating keys, Compressed x2, "
         "Bucketing x2, Elias-Fano x2, Mapped x2 (created / reopened), Multidimensional x2, Dynamic x3 with arithmetic / string / "
         "pointer values, updated between rounds with the readers joined) queried by 2/4/8/16 std::threads released together, "
         "2000 (quick) / 20000 (thorough) mixed operations per thread with random yields between library calls, alternately on "
         "all cores and pinned to 2 cores; built with -fsanitize=thread, hooks off, no OpenMP; oracle: zero ThreadSanitizer "
         "reports (in-process __tsan_on_report counter + the log), and each thread's digest of (query,result) equals the digest "
         "of the same sequence run alone before and after; non-trivial = >= 2 readers were inside the library simultaneously",
    assumptions=ASSUME_COMMON + ["ThreadSanitizer's happens-before analysis flags a race on any schedule where the two accesses are unordered; schedules are sampled, not enumerated",
                                 "construction is sequential (the chunked OpenMP build is not part of this property)"],
    technique="runtime monitoring: ThreadSanitizer (happens-before race detector) + per-thread result digests vs sequential execution",
)


def c17_runs(tier):
    q = tier == "quick"
    return [
        Q("static_pgm", "asan", 500 if q else 2500), Q("static_comp", "asan", 700 if q else 2500),
        Q("static_bucket", "asan", 600 if q else 2500), Q("static_ef", "asan", 700 if q else 2500),
        R("segmentation", "asan", 500 if q else 4000), R("dynamic", "asan", 250 if q else 800, exclude="#enum"),
        R("mapped", "asan", 250 if q else 800), R("multidim", "asan", 300 if q else 1000),
        R("copymove", "asan", 210 if q else 2100), R("cinterface", "asan", 300 if q else 2000),
    ]


PLANS["C17"] = dict(
    runs=c17_runs,
    kinds={"asan_report"},
    always={"crash", "hang"},
    rule="every engine's workload is re-run by this check under AddressSanitizer (recover mode: each report is attributed to the "
         "running case; deadly signals are attributed through the begin/end protocol), with the generators biased to the boundary "
         "corpus: n = 1,2,3, keys at lowest() and max-1, queries at lowest() / below the first / above the last key / max-1, empty "
         "dynamic containers and erase-all histories, iterators driven to end() from every start, boxes reaching the last stored "
         "point, single-segment indexes incl. segments_count()/height()/size_in_bytes(), copy/move/destroy orders, the C interface, "
         "mapped files that end on a page boundary in front of a PROT_NONE guard page; functional answers are NOT judged here - "
         "only memory errors (ASan report, SEGV/abort of the worker, guard-page fault); a case = as in the engine's own property; "
         "distinct by input hash",
    assumptions=ASSUME_COMMON + ["red-zone detector: an overflow that lands inside another live allocation or inside the same object is invisible to AddressSanitizer"],
    technique="runtime monitoring: AddressSanitizer (recover mode with per-case attribution) + guard pages behind mapped files, over all engines' boundary workloads",
)

# properties not claimed (filled while the framework is being built; empty once every engine exists)
NOT_APPLICABLE = {}

"""Summarise the replays of a property (debug helper): python3 -m vf.kinds C08"""
import json, glob, collections, sys
prop = sys.argv[1]
c = collections.Counter(); ex = {}
for p in glob.glob(f'/verif/replays/{prop}/*.json'):
    v = json.load(open(p)); k = (v['flavour'], v['kind'], v.get('detail', {}).get('what', '')[:60]); c[k] += 1
    ex.setdefault(k, (v['config'], v['detail'], v.get('traits'), len(v.get('spec', {}).get('keys', [])), (v.get('stderr') or '')[-300:]))
for k in sorted(c): print(k, c[k], ex[k][:4]); 
if '-v' in sys.argv:
    for k in sorted(c): print(k, ex[k][4])

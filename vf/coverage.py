"""Line coverage of the anchored mechanisms (thorough tier): engines built with --coverage are run on a small slice of the
property's workload; gcov data is collected under a per-run GCOV_PREFIX, merged per library header, and reported for the
line ranges named in the property's anchors (mapped from the snapshot's line numbers to the current file by a diff)."""
import difflib
import gzip
import json
import os
import re
import shutil
import subprocess

from .build import VERIF, REPO

SNAPSHOT = "136c5f0"  # the line numbers in properties.jsonl refer to this commit


def prefix_dir(rundir, prop, tier):
    return os.path.join(rundir, f"cov.{prop}.{tier}")


def _line_map(relpath):
    """old line number (snapshot) -> current line number, for unchanged lines."""
    try:
        old = subprocess.run(["git", "-C", "/repo", "show", f"{SNAPSHOT}:{relpath}"], stdout=subprocess.PIPE, text=True, check=True).stdout.split("\n")
    except subprocess.CalledProcessError:
        return None
    with open(os.path.join(REPO, relpath), errors="replace") as f:
        new = f.read().split("\n")
    m = {}
    sm = difflib.SequenceMatcher(None, old, new, autojunk=False)
    for tag, i1, i2, j1, j2 in sm.get_opcodes():
        if tag == "equal":
            for k in range(i2 - i1):
                m[i1 + k + 1] = j1 + k + 1
    return m


def _anchors(prop):
    with open(os.path.join(VERIF, "properties.jsonl")) as f:
        for line in f:
            p = json.loads(line)
            if p["id"] == prop:
                return p["anchors"].get("mechanism", [])
    return []


def _parse_where(where):
    """'include/pgm/a.hpp:32-33,192-199; include/pgm/b.hpp:5' -> [(file, [(lo, hi), ...])]"""
    out = []
    for part in re.split(r";\s*", where):
        m = re.match(r"\s*([^:\s]+):([\d,\-\s]+)", part)
        if not m:
            continue
        ranges = []
        for r in m.group(2).split(","):
            r = r.strip()
            if not r:
                continue
            a, _, b = r.partition("-")
            ranges.append((int(a), int(b or a)))
        out.append((m.group(1), ranges))
    return out


def collect(prefix):
    """{header relpath: {line: count}} merged over every .gcda found under the prefix."""
    cov = {}
    for d, _, fs in os.walk(prefix):
        for f in fs:
            if not f.endswith(".gcda"):
                continue
            gcda = os.path.join(d, f)
            orig_dir = d[len(prefix):]
            gcno = os.path.join(orig_dir, f[:-5] + ".gcno")
            if not os.path.exists(gcno):
                continue
            shutil.copy(gcno, os.path.join(d, f[:-5] + ".gcno"))
            p = subprocess.run(["gcov", "-j", "-t", f], cwd=d, stdout=subprocess.PIPE, stderr=subprocess.DEVNULL)
            if p.returncode != 0 or not p.stdout:
                continue
            try:
                data = json.loads(p.stdout)
            except ValueError:
                try:
                    data = json.loads(gzip.decompress(p.stdout))
                except Exception:
                    continue
            for fe in data.get("files", []):
                path = fe.get("file", "")
                if "/include/pgm/" not in path and "/c-interface/" not in path:
                    continue
                rel = path[path.index("/include/pgm/") + 1:] if "/include/pgm/" in path else "c-interface/" + os.path.basename(path)
                tgt = cov.setdefault(rel, {})
                for ln in fe.get("lines", []):
                    n = ln["line_number"]
                    tgt[n] = tgt.get(n, 0) + ln.get("count", 0)
    return cov


def anchor_report(prop, prefix):
    cov = collect(prefix)
    report = []
    tot_i = tot_e = 0
    for mech in _anchors(prop):
        entry = dict(mechanism=mech.get("name", "")[:110], where=mech.get("where", ""), files=[])
        for rel, ranges in _parse_where(mech.get("where", "")):
            lm = _line_map(rel)
            lines = cov.get(rel, {})
            inst = exe = 0
            missed = []
            for lo, hi in ranges:
                for old in range(lo, hi + 1):
                    cur = lm.get(old) if lm else old
                    if cur is None or cur not in lines:
                        continue
                    inst += 1
                    if lines[cur] > 0:
                        exe += 1
                    else:
                        missed.append(cur)
            entry["files"].append(dict(file=rel, instrumented_lines=inst, executed_lines=exe, unexecuted_current_line_numbers=missed[:40]))
            tot_i += inst
            tot_e += exe
        report.append(entry)
    per_file = {rel: dict(instrumented=len(l), executed=sum(1 for c in l.values() if c > 0)) for rel, l in sorted(cov.items())}
    return dict(anchor_lines_instrumented=tot_i, anchor_lines_executed=tot_e, mechanisms=report, library_files=per_file,
                note="gcov -O0 build of the engines, a slice of this check's workload; anchors' line numbers refer to the snapshot and are "
                     "mapped to the current files by a diff (lines changed by fix: commits are not counted)")

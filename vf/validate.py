"""Validates MANIFEST.json and evidence files against the task schemas (needs python3-vt's jsonschema)."""
import json, sys, glob
import jsonschema
m = json.load(open('/verif/MANIFEST.json'))
jsonschema.validate(m, json.load(open('/root/.vp/MANIFEST.schema.json')))
print('manifest valid:', len(m['checks']), 'checks')
es = json.load(open('/root/.vp/EVIDENCE.schema.json'))
for p in sorted(glob.glob('/verif/evidence/*.json')):
    try:
        jsonschema.validate(json.load(open(p)), es); print('ok', p)
    except Exception as e:
        print('INVALID', p, str(e)[:300])

#!/usr/bin/env python3
"""Assemble seeded/<id>/meta.json from the confirmation (confirm.json) and evaluation results (/tmp/seedeval/*.result.json)."""
import json, os, sys, glob
NEEDS = json.load(open('/verif/seeded/needs.json')) if os.path.exists('/verif/seeded/needs.json') else {}
for d in sorted(glob.glob('/verif/seeded/C*')):
    name = os.path.basename(d)
    meta = json.load(open(f'{d}/meta.json')) if os.path.exists(f'{d}/meta.json') else {}
    meta['property'] = meta.get('property', name[:3])
    if name in NEEDS:
        meta['change'] = NEEDS[name]['change']; meta['needs_to_manifest'] = NEEDS[name]['needs']
    meta['origin'] = 'independent sub-agent given only the property record and a scratch worktree of /repo HEAD; see NOTES.md (its own account)'
    if os.path.exists(f'{d}/confirm.json'):
        c = json.load(open(f'{d}/confirm.json'))
        meta['confirmed_by_me'] = dict(repo_head=c.get('repo_head'), patch_applies=c.get('patch_applies'), compiles=c.get('compiles'),
                                       test_suite=c.get('tests', {}).get('summary'), demo_exit_unchanged=c.get('demo_unchanged', [None])[0],
                                       demo_exit_changed=c.get('demo_changed', [None])[0], confirmed=c.get('confirmed'),
                                       how='tools/seedconfirm.py: scratch worktree, git apply, cmake build of tests + cpgmindexlib, full test binary, demo built against both trees')
    ev = {}
    for tier in ('quick', 'thorough'):
        p = f'/tmp/seedeval/{name}.{tier}.result.json'
        if os.path.exists(p): ev[tier] = json.load(open(p))
    if ev:
        old = meta.get('checks_run', {})
        old.update(ev); meta['checks_run'] = old
    meta['how_checks_were_run'] = 'tools/seedeval.py: patch applied in a scratch worktree of /repo HEAD, ./check <prop> <tier> with VERIF_REPO pointing at it (equivalent to git -C /repo apply; ./check; git -C /repo checkout -- .), worktree removed afterwards'
    json.dump(meta, open(f'{d}/meta.json', 'w'), indent=1)
    print(name, meta.get('confirmed_by_me', {}).get('confirmed'), {t: {p: r['exit'] for p, r in v.items()} for t, v in meta.get('checks_run', {}).items()})

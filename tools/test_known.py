#!/usr/bin/env python3
"""Self-test of the known-findings path of the driver (no open finding exists in known_findings.json today).
An artificial OPEN entry that matches the seeded change C14-a (contains() true for absent points ABOVE the largest stored
code) must turn that change's violations into KNOWN-FINDING lines with exit 0, while a different violation of the same
property (the F9 regression: absent points BETWEEN stored codes) must still exit 1 with a VIOLATION line."""
import json, os, subprocess, sys, tempfile
known = dict(findings=[dict(id="TEST-OPEN", property="C14", status="open", what="artificial open finding: contains() true for absent points above the largest stored code",
                            match=dict(engine="multidim", kind="contains_mismatch", detail_regex="above_largest_code"))])
kf = tempfile.NamedTemporaryFile("w", suffix=".json", delete=False); json.dump(known, kf); kf.close()
def run(patch_cmd):
    wt = "/tmp/test_known_wt"
    subprocess.call(["git", "-C", "/repo", "worktree", "remove", "--force", wt], stderr=subprocess.DEVNULL)
    subprocess.check_call(["git", "-C", "/repo", "worktree", "add", "-f", "-q", wt, "HEAD"])
    try:
        patch_cmd(wt)
        env = dict(os.environ, VERIF_REPO=wt, VERIF_OUT="/tmp/test_known_out", VERIF_KNOWN=kf.name)
        r = subprocess.run(["/verif/check", "C14", "quick"], env=env, stdout=subprocess.PIPE, stderr=subprocess.PIPE, text=True)
        return r.returncode, r.stdout
    finally:
        subprocess.call(["git", "-C", "/repo", "worktree", "remove", "--force", wt])
rc1, out1 = run(lambda wt: subprocess.check_call(["git", "-C", wt, "apply", "/verif/seeded/C14-a/patch.diff"]))
def f9(wt):
    p = wt + "/include/pgm/pgm_index_variants.hpp"; s = open(p).read()
    s = s.replace("return it != data.end() && morton::Decode(*it) == p;", "return it != data.end() || morton::Decode(*it) == p;"); open(p, "w").write(s)
rc2, out2 = run(f9)
ok1 = rc1 == 0 and "KNOWN-FINDING: property=C14" in out1 and "VIOLATION" not in out1
ok2 = rc2 == 1 and "VIOLATION property=C14" in out2
print("matching change  -> exit", rc1, [l for l in out1.split("\n") if l.startswith(("KNOWN", "VIOL"))][:2], "OK" if ok1 else "UNEXPECTED")
print("different change -> exit", rc2, [l for l in out2.split("\n") if l.startswith(("KNOWN", "VIOL"))][:2], "OK" if ok2 else "UNEXPECTED")
os.unlink(kf.name)
sys.exit(0 if ok1 and ok2 else 1)

#!/usr/bin/env python3
"""Replaces the text between the SEED-TABLE markers of DESIGN.md by the output of tools/mktables.py."""
import subprocess
t = subprocess.check_output(["python3", "/verif/tools/mktables.py"], text=True)
p = "/verif/DESIGN.md"
s = open(p).read()
a = s.index("<!--SEED-TABLE-BEGIN-->") + len("<!--SEED-TABLE-BEGIN-->")
b = s.index("<!--SEED-TABLE-END-->")
open(p, "w").write(s[:a] + "\n\n" + t + "\n" + s[b:])
print("inserted", len(t.splitlines()), "lines")

#!/usr/bin/env python3
"""Confirm a candidate seeded change independently: tools/seedconfirm.py <seed-dir> [--no-tests]
 - patch applies to /repo's HEAD in a scratch worktree, the project compiles, the repository's test suite passes with it
 - the demonstration fails (non-zero exit) with the change and passes (exit 0) without it
Writes the outcome into <seed-dir>/confirm.json and removes the worktree and its build output."""
import json, os, subprocess, sys, shutil, re, time
seed = os.path.abspath(sys.argv[1]); name = os.path.basename(seed)
run_tests = "--no-tests" not in sys.argv
wt = f"/tmp/seedconfirm/{name}"
subprocess.call(["git", "-C", "/repo", "worktree", "remove", "--force", wt], stderr=subprocess.DEVNULL)
os.makedirs("/tmp/seedconfirm", exist_ok=True)
subprocess.check_call(["git", "-C", "/repo", "worktree", "add", "-f", "-q", wt, "HEAD"])
res = dict(repo_head=subprocess.check_output(["git", "-C", "/repo", "rev-parse", "--short", "HEAD"], text=True).strip(), at=time.strftime("%Y-%m-%d %H:%M"))
def sh(cmd, **kw):
    return subprocess.run(cmd, shell=True, stdout=subprocess.PIPE, stderr=subprocess.STDOUT, text=True, **kw)
try:
    demo = os.path.join(seed, "demo.cpp")
    top = open(demo).read(4000)
    san = "-fsanitize=thread" if "fsanitize=thread" in top else ("-fsanitize=address" if "fsanitize=address" in top else "")
    extra = "-I%s/c-interface %s/c-interface/cpgm.cpp" % (wt, wt) if "cpgm.h" in open(demo).read() else ""
    # TSan demos are built without OpenMP (uninstrumented libgomp is noise) unless they call the OpenMP API themselves
    omp = "" if ("thread" in san and "omp.h" not in open(demo).read()) else "-fopenmp"
    if "-fno-access-control" in top: extra += " -fno-access-control"
    if "-DNDEBUG" in top: extra += " -DNDEBUG"
    def build_demo(tag):
        r = sh(f"g++ -std=gnu++17 -O1 -g {omp} -march=native {san} -I{wt}/include {extra} {demo} -o /tmp/seedconfirm/{name}.{tag} -pthread")
        if r.returncode != 0: return None, r.stdout[-1500:]
        env = dict(os.environ, ASAN_OPTIONS="detect_leaks=0", TSAN_OPTIONS="halt_on_error=1")
        try:
            r2 = subprocess.run([f"/tmp/seedconfirm/{name}.{tag}"], stdout=subprocess.PIPE, stderr=subprocess.STDOUT, text=True, timeout=900, cwd="/tmp/seedconfirm", env=env)
            return r2.returncode, r2.stdout[-800:]
        except subprocess.TimeoutExpired:
            return "timeout", ""
    res["demo_unchanged"] = build_demo("orig")
    subprocess.check_call(["git", "-C", wt, "apply", os.path.join(seed, "patch.diff")])
    res["patch_applies"] = True
    res["demo_changed"] = build_demo("mut")
    if run_tests:
        r = sh(f"cmake -S {wt} -B {wt}/_b -DCMAKE_BUILD_TYPE=RelWithDebInfo -DCMAKE_CXX_FLAGS=-Wno-error -DBUILD_EXAMPLES=OFF -DBUILD_PGM_TUNER=OFF -DBUILD_PGM_BENCHMARK=OFF -G Ninja && cmake --build {wt}/_b --target tests cpgmindexlib -j 8")
        res["compiles"] = r.returncode == 0
        if r.returncode == 0:
            r = sh(f"{wt}/_b/test/tests", cwd=f"{wt}/_b/test")
            m = re.search(r"All tests passed \((\d+) assertions? in (\d+) test cases?\)", r.stdout)
            res["tests"] = dict(exit=r.returncode, summary=m.group(0) if m else r.stdout[-600:])
        else:
            res["build_log"] = r.stdout[-1500:]
    if not run_tests and os.path.exists(os.path.join(seed, "confirm.json")):
        prev = json.load(open(os.path.join(seed, "confirm.json")))
        for k in ("compiles", "tests"):
            if k in prev: res[k] = prev[k]
        run_tests = "tests" in res
    ok = res.get("demo_unchanged", [1])[0] == 0 and res.get("demo_changed", [0])[0] not in (0, None) and (not run_tests or (res.get("compiles") and res.get("tests", {}).get("exit") == 0))
    res["confirmed"] = bool(ok)
finally:
    subprocess.call(["git", "-C", "/repo", "worktree", "remove", "--force", wt])
    subprocess.call(["git", "-C", "/repo", "worktree", "prune"])
    for t in ("orig", "mut"):
        try: os.unlink(f"/tmp/seedconfirm/{name}.{t}")
        except OSError: pass
json.dump(res, open(os.path.join(seed, "confirm.json"), "w"), indent=1)
print(json.dumps(res, indent=1)[:1500])

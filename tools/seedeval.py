#!/usr/bin/env python3
"""Evaluate a seeded change (seeded/<id>/patch.diff) against the checks, in a scratch worktree of /repo's HEAD.

  tools/seedeval.py <seed-dir> [--tier quick|thorough] [--props C01,C02,...]

Equivalent to `git -C /repo apply patch.diff; ./check ...; git -C /repo checkout -- .`, but does not touch /repo, so
that it can run next to other work. Prints, per property, the exit status and the violation kinds; removes the worktree."""
import json, os, subprocess, sys, glob, collections, shutil
seed = os.path.abspath(sys.argv[1])
tier = "quick"; props = None
a = sys.argv[2:]
while a:
    if a[0] == "--tier": tier = a[1]; a = a[2:]
    elif a[0] == "--props": props = a[1].split(","); a = a[2:]
    else: a = a[1:]
meta = json.load(open(os.path.join(seed, "meta.json"))) if os.path.exists(os.path.join(seed, "meta.json")) else {}
props = props or meta.get("check_with") or [meta.get("property")]
name = os.path.basename(seed)
wt = f"/tmp/seedeval/{name}"
subprocess.call(["git", "-C", "/repo", "worktree", "remove", "--force", wt], stderr=subprocess.DEVNULL)
os.makedirs("/tmp/seedeval", exist_ok=True)
subprocess.check_call(["git", "-C", "/repo", "worktree", "add", "-f", "-q", wt, "HEAD"])
try:
    subprocess.check_call(["git", "-C", wt, "apply", os.path.join(seed, "patch.diff")])
    out = f"/tmp/seedeval/{name}.out"
    shutil.rmtree(out, ignore_errors=True)
    res = {}
    for p in props:
        env = dict(os.environ, VERIF_REPO=wt, VERIF_OUT=out)
        r = subprocess.run(["/verif/check", p, tier], env=env, stdout=subprocess.PIPE, stderr=subprocess.PIPE, text=True)
        kinds = collections.Counter()
        for f in glob.glob(f"{out}/replays/{p}/*.json"):
            v = json.load(open(f)); kinds[(v.get("engine"), v.get("flavour"), v.get("kind"))] += 1
        ev = json.load(open(f"{out}/evidence/{p}.json")) if os.path.exists(f"{out}/evidence/{p}.json") else {}
        res[p] = dict(exit=r.returncode, new_violations=ev.get("violations"), wall_s=ev.get("wall_s"), kinds={"/".join(map(str, k)): v for k, v in kinds.items()})
        print(f"{name}: {p} {tier}: exit={r.returncode} violations={ev.get('violations')} wall={ev.get('wall_s')}s kinds={dict(kinds)}", flush=True)
    json.dump(res, open(f"/tmp/seedeval/{name}.{tier}.result.json", "w"), indent=1)
finally:
    subprocess.call(["git", "-C", "/repo", "worktree", "remove", "--force", wt])
    subprocess.call(["git", "-C", "/repo", "worktree", "prune"])

#!/bin/bash
# Silence soak: every quick (or thorough) check on the unchanged tree for several VERIF_SEED values, evidence redirected.
# usage: tools/soak.sh <tier> <seed>...   -> /verif/build/soak.<tier>.log ; a line per run with the exit status
tier=$1; shift
for seed in "$@"; do
  for i in $(seq -w 1 20); do
    p=C$i
    out=$(VERIF_SEED=$seed VERIF_OUT=/verif/build/soak_out /verif/check $p $tier 2>&1 | tail -1)
    rc=${PIPESTATUS[0]}
    echo "seed=$seed $p $tier :: $out" >> /verif/build/soak.$tier.log
  done
done
echo "finished $tier $*" >> /verif/build/soak.$tier.log

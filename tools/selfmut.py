#!/usr/bin/env python3
"""Sensitivity runs with hand-written mutants (DESIGN.md section 6): each entry replaces one snippet in a scratch worktree of
/repo's HEAD and runs the quick check(s) of the property it should break.  tools/selfmut.py [name-substring] [--tier T]"""
import json, os, subprocess, sys, glob, collections, shutil
V = "include/pgm/pgm_index_variants.hpp"; P = "include/pgm/pgm_index.hpp"; M = "include/pgm/piecewise_linear_model.hpp"; D = "include/pgm/pgm_index_dynamic.hpp"; C = "c-interface/cpgm.cpp"
MUT = [
 ("C01_add_eps_plus1", ["C01"], P, "((x) + (epsilon) + 2 >= (size) ? (size) : (x) + (epsilon) + 2)", "((x) + (epsilon) + 1 >= (size) ? (size) : (x) + (epsilon) + 1)"),
 ("C01_no_first_key_clamp", ["C01", "C02", "C17"], P, "        auto k = std::max(first_key, key);\n        auto it = segment_for_key(k);", "        auto k = key;\n        auto it = segment_for_key(k);"),
 ("C01_no_rounding_term", ["C01", "C02", "C03"], M, "auto intercept = (intercept_n + rounding_term) / intercept_d + rectangle[1].y;", "auto intercept = intercept_n / intercept_d + rectangle[1].y;"),
 ("C02_no_gap_point", ["C02"], M, "                if (in(i) + 1 < in(i + 1))\n                    add_point(in(i) + 1, i);", "                if (false)\n                    add_point(in(i) + 1, i);"),
 ("C02_no_next_intercept_cap", ["C02", "C01"], P, "        auto pos = std::min<size_t>((*it)(k), std::next(it)->intercept);\n        auto lo = PGM_SUB_EPS(pos, Epsilon);", "        auto pos = (*it)(k);\n        auto lo = PGM_SUB_EPS(pos, Epsilon);"),
 ("C02_omp_no_reduction", ["C02"], M, "#pragma omp parallel for reduction(+:c) num_threads(parallelism)", "#pragma omp parallel for num_threads(parallelism)"),
 ("C03_hull_pop_strict", ["C03", "C04"], M, "cross(upper[end - 2], upper[end - 1], p1) <= 0; --end)", "cross(upper[end - 2], upper[end - 1], p1) < 0; --end)"),
 ("C03_no_band_clamp", ["C03", "C04"], M, "Point p2{x, y <= min_y + epsilon ? min_y : y - epsilon};", "Point p2{x, y - epsilon};"),
 ("C04_cut_every_1000", ["C04"], M, "        if (outside_line1 || outside_line2) {", "        if (outside_line1 || outside_line2 || points_in_hull >= 1000) {"),
 ("C04_half_epsilon", ["C04"], M, "    OptimalPiecewiseLinearModel<K, size_t> opt(epsilon);", "    OptimalPiecewiseLinearModel<K, size_t> opt(epsilon / 2 + (epsilon == 1));"),
 ("C05_merge_prefers_older", ["C05", "C06"], D, "            } else {\n                if constexpr (Move) *result = std::move(*first1);\n                else *result = *first1;\n                ++first1;\n                ++first2;\n                ++result;\n            }", "            } else {\n                if constexpr (Move) *result = std::move(*first2);\n                else *result = *first2;\n                ++first1;\n                ++first2;\n                ++result;\n            }"),
 ("C05_find_ignores_tombstone", ["C05"], D, "                return it->deleted() ? end() : iterator(this, i, it);", "                { if (it->deleted()) continue; return iterator(this, i, it); }"),
 ("C05_permanent_delete_too_early", ["C05", "C06"], D, "            auto can_delete_permanently = i == used_levels - 1;", "            auto can_delete_permanently = i >= used_levels - 2;"),
 ("C06_losertree_tie_reversed", ["C06"], D, "(key >= losers[pos].key && losers[pos].source < source)", "(key >= losers[pos].key && losers[pos].source > source)"),
 ("C06_range_keeps_tombstones", ["C06"], D, "            if (!it->deleted())\n                result.emplace_back(it->first, it->second);", "            result.emplace_back(it->first, it->second);"),
 ("C07_upper_levels_with_epsilon", ["C07"], P, "            last_n = build_level(epsilon_recursive, in_fun_rec, out_fun, last_n);", "            last_n = build_level(epsilon, in_fun_rec, out_fun, last_n);"),
 ("C07_window_offset_x4", ["C07"], P, "            auto lo = level_begin + PGM_SUB_EPS(pos, EpsilonRecursive + 1);", "            auto lo = level_begin + PGM_SUB_EPS(pos, 4 * (EpsilonRecursive + 1));"),
 ("C08_current_min_slope", ["C08"], V, "        slopes_table.push_back(0.5 * (current_min + current_max));", "        slopes_table.push_back(current_min);"),
 ("C08_no_clamp", ["C08", "C17"], V, "builder.set(std::clamp<int64_t>(*it, *(it - 1) + 1, prev_level_size - 1) - intercept_offset);", "builder.set(std::max<int64_t>(*it, *(it - 1) + 1) - intercept_offset);"),
 ("C09_top_level_k_minus_1", ["C09"], V, "            top_level[i] = k;", "            top_level[i] = k - (k > 1 && i % 7 == 3);"),
 ("C09_no_overflow_guard", ["C09"], V, "            if (__builtin_mul_overflow(K(i), step, &upper_bound))\n                upper_bound = std::numeric_limits<K>::max();", "            upper_bound = K(i) * step;"),
 ("C10_beyond_universe_j_minus_2", ["C10", "C17"], V, "            return {j - 1, ef.low[j - 1] + ((ef.high_1_select(j) + 1 - j) << (ef.wl))};", "            return {j > 1 ? j - 2 : 0, ef.low[j > 1 ? j - 2 : 0] + ((ef.high_1_select(j > 1 ? j - 1 : 1) + 1 - (j > 1 ? j - 1 : 1)) << (ef.wl))};"),
 ("C11_gallop_le_end", ["C11", "C17"], V, "        while (it + step < end() && *(it + step) == key)", "        while (it + step <= end() && *(it + step) == key)"),
 ("C12_serialize_omits_first_key", ["C12"], V, "        header_bytes += write_member(this->first_key, out);", "        header_bytes += write_member(K(0), out);"),
 ("C12_load_omits_n", ["C12", "C11"], V, "        read_member(this->n, in);\n        read_member(this->first_key, in);", "        { size_t tmp; read_member(tmp, in); this->n = tmp - (tmp % 64 == 63); }\n        read_member(this->first_key, in);"),
 ("C13_drop_dimension", ["C13"], V, "        return box_zcontains_field(min, max, p, std::make_index_sequence<Dimensions>());", "        return box_zcontains_field(min, max, p, std::make_index_sequence<(Dimensions > 2 ? Dimensions - 1 : Dimensions)>());"),
 ("C13_revert_lower_bound", ["C13"], V, "it = std::lower_bound(super->data.begin() + range.lo, super->data.begin() + range.hi, bmin);\n                    --it;", "it = std::upper_bound(super->data.begin() + range.lo, super->data.begin() + range.hi, bmin);\n                    --it;"),
 ("C14_revert_and", ["C14"], V, "return it != data.end() && morton::Decode(*it) == p;", "return it != data.end() || morton::Decode(*it) == p;"),
 ("C15_source_index_not_reset", ["C15"], D, "            if (has_pgm(i))\n                pgm(i) = PGMType();\n        }", "        }"),
 ("C15_slots_required_off_by_one", ["C15"], D, "            if (slots_required <= slots_left_in_level)\n                break;", "            if (slots_required <= slots_left_in_level + 1)\n                break;"),
 ("C15_index_not_rebuilt_sometimes", ["C15", "C05"], D, "        if (has_pgm(target))\n            pgm(target) = PGMType(level(target).begin(), level(target).end());", "        if (has_pgm(target) && level(target).size() % 5 != 3)\n            pgm(target) = PGMType(level(target).begin(), level(target).end());"),
 ("C16_memo_in_search", ["C16"], P, "    ApproxPos search(const K &key) const {\n        auto k = std::max(first_key, key);", "    ApproxPos search(const K &key) const {\n        static size_t memo_calls = 0; ++memo_calls;\n        auto k = std::max(first_key, key);"),
 ("C17_no_sentinel_segment", ["C17", "C02"], P, "                segments.emplace_back(sentinel, 0, last_n);\n            }", "                if (segments.size() % 3 != 1) segments.emplace_back(sentinel, 0, last_n);\n            }"),
 ("C17_hi_not_capped", ["C17", "C01"], P, "        auto hi = PGM_ADD_EPS(pos, Epsilon, n);\n        return {pos, lo, hi};\n    }\n\n    /**\n     * Returns the number of segments in the last level of the index.", "        auto hi = pos + Epsilon + 2;\n        return {pos, lo, hi};\n    }\n\n    /**\n     * Returns the number of segments in the last level of the index."),
 ("C18_wrapper_uses_template_eps", ["C18"], C, "        auto lo = PGM_SUB_EPS(pos, epsilon);\n        auto hi = PGM_ADD_EPS(pos, epsilon, this->n);", "        auto lo = PGM_SUB_EPS(pos, epsilon);\n        auto hi = PGM_ADD_EPS(pos, this->epsilon_value, this->n);"),
 ("C19_revert_copy_ctor", ["C19"], V, "          sel1(&compressed_intercepts) {}", "          sel1(other.sel1) {}"),
 ("C20_no_sentinel_check", ["C20"], P, "        if (*std::prev(last) == sentinel)\n            throw std::invalid_argument(\"The value \" + std::to_string(sentinel) + \" is reserved as a sentinel.\");\n\n        auto build_level", "        auto build_level"),
 ("C20_no_tombstone_check", ["C20"], D, "        if (second == tombstone)\n            throw std::invalid_argument(\"The specified value is reserved and cannot be used.\");", ""),
 ("C20_unsorted_check_off_by_one", ["C20"], D, "            if (first->first < std::prev(out)->first)\n                throw std::invalid_argument(\"Range is not sorted\");", "            if (first->first < std::prev(out)->first && std::prev(out) != target.begin())\n                throw std::invalid_argument(\"Range is not sorted\");"),
]
args = sys.argv[1:]
tier = "quick"
if "--tier" in args:
    tier = args[args.index("--tier") + 1]; del args[args.index("--tier"):args.index("--tier") + 2]
sel = args[0] if args else ""
results = {}
os.makedirs("/tmp/selfmut", exist_ok=True)
for name, props, file, old, new in MUT:
    if sel not in name: continue
    wt = f"/tmp/selfmut/{name}"
    subprocess.call(["git", "-C", "/repo", "worktree", "remove", "--force", wt], stderr=subprocess.DEVNULL)
    subprocess.check_call(["git", "-C", "/repo", "worktree", "add", "-f", "-q", wt, "HEAD"])
    try:
        path = os.path.join(wt, file); s = open(path).read()
        if old not in s:
            print(f"{name}: SNIPPET NOT FOUND"); continue
        open(path, "w").write(s.replace(old, new, 1))
        out = f"/tmp/selfmut/{name}.out"; shutil.rmtree(out, ignore_errors=True)
        for p in props:
            env = dict(os.environ, VERIF_REPO=wt, VERIF_OUT=out)
            r = subprocess.run(["/verif/check", p, tier], env=env, stdout=subprocess.PIPE, stderr=subprocess.PIPE, text=True)
            kinds = collections.Counter()
            for f in glob.glob(f"{out}/replays/{p}/*.json"):
                kinds[json.load(open(f)).get("kind")] += 1
            tail = r.stderr.strip().split("\n")[-1][:200] if r.returncode == 2 else ""
            print(f"{name}: {p} {tier}: exit={r.returncode} kinds={dict(kinds)} {tail}", flush=True)
            results.setdefault(name, {})[p] = dict(exit=r.returncode, kinds=dict(kinds))
        shutil.rmtree(out, ignore_errors=True)
    finally:
        subprocess.call(["git", "-C", "/repo", "worktree", "remove", "--force", wt])
subprocess.call(["git", "-C", "/repo", "worktree", "prune"])
json.dump(results, open(f"/tmp/selfmut/results.{tier}.{sel or 'all'}.json", "w"), indent=1)

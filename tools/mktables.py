#!/usr/bin/env python3
"""Prints the markdown tables of DESIGN.md section 6 from seeded/*/meta.json and the self-mutant results."""
import json, glob, os
HIST = {
 "C12-a": "missed at first (n multiple of 4096 never generated) -> 'round' element counts added to the mapped generator",
 "C16-a": "missed at first (a sequential reference run before the threads hid the lazy rebuild) -> readers-first rounds",
 "C20-a": "missed at first (lengths 0..40 only) -> every 8th reserved-key case uses >= 2^15 keys (chunked builder)",
 "C01-b": "missed at first -> nested_staircase family (band-tight upper levels, deviation = eps_rec+1 observed)",
 "C03-b": "missed at first -> convex_jumps family (tangent advances over many hull vertices)",
 "C04-b": "missed at first (omp_get_num_procs was interposed to a constant 32) -> the reported processor count varies; oracle c = min(procs, threads, 20)",
 "C07-b": "missed at first (the added scan is outside hook H2) -> structural clause top_level_exceeds_scan_budget",
 "C10-b": "missed at first (n <= 2^20) -> one '#huge' case (> 2^24 keys) per static class and flavour",
 "C12-b": "missed at first (Floating = double never instantiated for Mapped) -> four Floating=double configurations",
 "C18-b": "missed by C18 at first (histories too shallow for base 8), caught by C05/C06 -> deep C histories (bulk > 4096 pairs, > 9000 operations)",
 "C19-b": "missed at first (indexes <= 3000 keys) -> assignment chains over large indexes shrinking/growing by a few percent per step",
 "C14-b": "originally outside what C14's engine did (the object is correct until it is copied and the source overwritten) and caught by C19 only; since the object-lifecycle variation (after C10-e) C14's own check queries copied objects and reports it too",
 "C17-a": "also reported by C13 as a crash",
 "C17-b": "same site as C19-a (found independently)",
 "C02-c": "same change as C01-b (submitted independently for C02)",
 "C05-c": "same change as C01-a, aimed at the per-level indexes; missed at first (no level reached 2^15 items) -> big_bulk histories; also reported by C15",
 "C06-c": "same mechanism as C05-b (submitted independently for C06)",
 "C03-c": "missed at first (every requested thread was delivered) -> some shards run with OMP_THREAD_LIMIT=2/3 or OMP_DYNAMIC=true; also reported by C02",
 "C08-c": "missed at first -> '#big' cases with one giant run inside irregular keys; statistical (the trigger is a narrow bit-width window): 5 of 6 seeds with 16 such cases per flavour (it had dropped to 2 of 6 with 8 cases when the generators shifted)",
 "C10-c": "missed at first (vector length multiple of 64 has probability 1/64 per dataset) -> '#sweep' cases: ~70 prefixes of one array, a few keys apart, pass through all residues",
 "C19-c": "caught by a single lucky case at first and lost again when the generators shifted -> '#mult' cases: prefixes located by bisection whose segment count is 4096k-1, 4096k, 4096k+1 are copy-constructed and copy-assigned; the change makes the copy loop forever: reported as hang + crash + ASan report, the check then takes ~10 min",
 "C10-d": "missed at first -> big_dense_burst family (hundreds of thousands of segment keys inside a few Elias-Fano buckets)",
 "C13-d": "missed by C13 at first (point sets <= 5000, never chunked), reported by C02 all along -> big_dense_grid point sets of 2^15..2^16 points",
 "C17-d": "missed at first (about 1 large index in 100 has the geometry) -> universe sweep: the last block of keys moves bucket by bucket across the next multiple of 4096 buckets (the evidence counts the steps with the critical geometry)",
 "C15-d": "same mechanism as C05-b / C06-c (submitted independently for C15)",
 "C06-d": "NOT reported, by design: hi == numeric max is outside the quantifier as I read it (see DESIGN section 7); every in-domain call behaves as before the change",
 "C02-d": "same family as C03-c / C01-d (under-delivered OpenMP team)",
 "C04-c": "missed at first (no segment kept > 2^16 hull vertices) -> slow_convex_long_segment family",
 "C12-c": "missed at first (output files were always fresh) -> half of the cases pre-populate the output names with longer files; file length is compared with file_size_in_bytes()",
 "C16-c": "caught by the per-thread result digests (ThreadSanitizer reports nothing: all shared accesses are atomic)",
 "C18-c": "missed by C18 at first (needs > 2^21 pairs), reported by C05/C06 all along -> giant C histories (2.1-2.3 M pairs, runs of erased keys, bounded walks)",
 "C20-c": "missed at first (coordinates were always supplied as value_type) -> input ranges of a wider integer type",
 "C16-d": "missed at first (erasures were isolated: no lookup walked over more than 64 tombstones) -> update rounds that insert, push down and erase contiguous blocks, readers aimed at them; the racy run also deadlocks ThreadSanitizer's runtime -> stall watchdog in the driver",
 "C04-d": "reported through the level-size recurrence of the static_pgm run of C04 (and by C07)",
 "C12-d": "reported as crashes of the mapped engine (the foreign pages unmapped by the destructor belong to the next container)",
 "C09-d": "same edit as C02-f / C14-e (submitted independently three times)",
 "C04-e": "missed at first (no single segment spanned 2^24 ranks) -> segmentation '#huge' configurations",
 "C10-e": "missed by C10 at first (every queried object was the constructed one), reported by C19 and C17 all along -> object-lifecycle variation in all static engines",
 "C11-e": "missed at first (ranges always came from a std::vector) -> deque and reverse-iterator sources",
 "C13-e": "missed at first (every multidimensional epsilon was a power of two) -> non-power-of-two epsilons in all engines",
 "C14-e": "missed at first (no point set >= 2^15 with an off-trend tail) -> big_far_tail family",
 "C16-e": "missed at first (shared indexes had < 10^4 segments) -> '#big' shared indexes over gen_irregular_keys",
 "C19-e": "missed at first (chains reached ~6*10^4 segments) -> chains over gen_irregular_keys (up to ~2*10^5 segments), copy construction inside the chain",
 "C12-e": "every narrow-key case crashes or throws on reopen; crash restarts per shard are capped so that the check still ends within minutes",
 "C05-e": "reported at once by the one instantiation with a floating mapped type",
 "C01-f": "missed by C01 at first, reported by C03 all along -> big_gentle_curve cases (hulls beyond 2^16 vertices) for the eps >= 64 configurations",
 "C03-f": "missed at first (the only > 2^16-vertex segment was the first of its array) -> gentle_curve_big_hull with an irregular prefix",
 "C08-f": "missed at first -> Compressed '#segs' cases (>= 2^15 first-level segments, up to 20 threads, every key queried); statistical: ~1.5 % of the upper-level chunk cuts misroute a few hundred keys; reported on 3 of 3 seeds",
 "C10-f": "missed by C10 at first, reported by C19's assignment chains -> threshold sweep (one long-lived object assigned indexes on both sides of 100000 high bits)",
 "C13-f": "missed at first (points were always tuples of T) -> tuples of a narrower element type in a third of the cases",
 "C14-f": "missed by C14 at first; decided exactly by C03 (residual oracle) and reported by C01 -> regular_far_clusters family and a larger C14 budget; statistical (4 of 4 seeds)",
 "C16-f": "missed at first (no full long block: needs > 10^5 segment keys in one Elias-Fano bucket) -> dense burst of ~10^6 keys between two far outliers among the '#big' shared indexes",
 "C02-f": "same edit as C09-d / C14-e",
 "C18-f": "same family as C01-d / C02-d / C03-c (under-delivered OpenMP team), reached through the C wrapper",
 "C01-g": "missed at first and in the full re-evaluation (one giant length per run meets the upward-rounding coincidence with p ~ 0.2) -> second '#giant' configuration drawing 8 lengths per quick run (uint32 keys, eps 16, Floating=double); statistical: reported on 3 of 3 seeds",
 "C09-g": "missed at first (no segment longer than ~2*10^7 positions) -> '#giant' cases: 3.6-4.4*10^7 equally spaced keys, one thread, optimised flavours",
 "C07-g": "missed at first (no floating family had gaps beyond 1e26) -> wide_gaps family for double keys (gaps 1e20..1e37: subnormal upper-level slopes)",
 "C11-g": "missed at first (mapped containers had <= 16384 keys in the quick tier) -> chunk-built mapped cases with an off-trend tail and a per-case thread count",
 "C12-g": "missed at first (the OpenMP thread count never changed inside a process) -> per-case omp_set_num_threads and cases that build through one path only; the fault depends on the history of the worker process, so its witness does not replay in isolation",
 "C13-g": "missed at first (cubic universes: top bit index never a multiple of 16) -> big_lopsided_grid (independent bit width per axis)",
 "C14-g": "missed at first (points were always tuples) -> a fifth of the 2-dimensional cases are built from std::pair ranges",
 "C20-g": "missed at first (unsorted ranges had <= 40 pairs) -> long ranges with one descent around every power of two, every 4096th and 65536th position and both ends",
 "C04-g": "reported massively: the segmentation engine sweeps the run-time epsilon through one call site",
 "C16-g": "ThreadSanitizer reports the race and the digests differ; the worker then stalls in the runtime (stall watchdog)",
 "C18-g": "same idea as C11-f / C05-g",
 "C06-g": "same idea as C05-f",
 "C01-c": "the agent measured ~1 failing key in 10^8 random keys; the band-tight families (staircase, nested_staircase) produce hundreds of failing cases",
}
N = json.load(open('/verif/seeded/needs.json'))
print("| seed | property | change (one line) | needs | confirmed by me (tests 45/45, demo fails with / passes without) | caught by (quick tier) | remark |")
print("|---|---|---|---|---|---|---|")
for d in sorted(glob.glob('/verif/seeded/C*')):
    n = os.path.basename(d); m = json.load(open(f'{d}/meta.json'))
    cb = m.get('confirmed_by_me', {})
    conf = "yes" if cb.get('confirmed') else ("pending" if not cb else "NO")
    caught = []
    for p, r in m.get('checks_run', {}).get('quick', {}).items():
        kinds = sorted({k.split('/')[-1] for k in r.get('kinds', {})})
        caught.append(f"{p}: exit {r['exit']}" + (f" ({', '.join(kinds[:3])})" if kinds else ""))
    print(f"| {n} | {m['property']} | {N.get(n, {}).get('change', '')[:150]} | {N.get(n, {}).get('needs', '')[:170]} | {conf} | {'; '.join(caught)} | {HIST.get(n, '')} |")
print()
res = {}
for f in glob.glob('/tmp/selfmut/results.quick.*.json'):
    res.update(json.load(open(f)))
print("| hand-written mutant | checks run (quick): exit status and kinds |")
print("|---|---|")
for k in sorted(res):
    print(f"| {k} | " + "; ".join(f"{p}: exit {r['exit']} {sorted(r['kinds'])[:3] if r['kinds'] else ''}" for p, r in res[k].items()) + " |")

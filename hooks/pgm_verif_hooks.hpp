// Verification hooks for gvinciguerra/PGM-index. Found only through -I/verif/hooks when the library is compiled with
// -DPGM_INDEX_VERIF; with the guard off none of this is seen by the library headers.
//
// H1  segmentation recorder: every (x, y) handed to add_point inside make_segmentation, per (start, end) scope
// H2  routing trace: per level of PGMIndex::segment_for_key, the predicted position, the segment found and the work done
// H3  friend accessors (declared here, defined by the harness that needs them)
//
// All recording is armed by the harness (a flag read by the macros); unarmed hooks cost one predictable branch.
#pragma once

#include <atomic>
#include <cstddef>
#include <cstdint>
#include <mutex>
#include <utility>
#include <vector>

namespace pgm_verif {

struct Access;        // friend of OptimalPiecewiseLinearModel, CanonicalSegment and PGMIndex (defined by harnesses)
struct DynamicAccess; // friend of DynamicPGMIndex (defined by harnesses)

// ---------------------------------------------------------------------------------------------- H1
inline std::atomic<bool> &seg_armed() {
    static std::atomic<bool> armed{false};
    return armed;
}

template<typename K>
struct SegScopeRecord {
    size_t n, start, end, epsilon;
    size_t returned = 0;
    std::vector<std::pair<K, size_t>> points;
};

template<typename K>
struct SegRegistry {
    std::mutex mu;
    std::vector<SegScopeRecord<K>> scopes;
    static SegRegistry &instance() {
        static SegRegistry r;
        return r;
    }
    std::vector<SegScopeRecord<K>> take() {
        std::lock_guard<std::mutex> g(mu);
        std::vector<SegScopeRecord<K>> out;
        out.swap(scopes);
        return out;
    }
};

/// Local object of one make_segmentation call. Thread-confined until its destructor appends it to the registry.
template<typename K>
struct SegScope {
    bool active;
    SegScopeRecord<K> rec;
    SegScope(size_t n, size_t start, size_t end, size_t epsilon) : active(seg_armed().load(std::memory_order_relaxed)) {
        if (active) {
            rec.n = n;
            rec.start = start;
            rec.end = end;
            rec.epsilon = epsilon;
        }
    }
    void point(const K &x, size_t y) {
        if (active)
            rec.points.emplace_back(x, y);
    }
    ~SegScope() {
        if (active) {
            auto &r = SegRegistry<K>::instance();
            std::lock_guard<std::mutex> g(r.mu);
            r.scopes.emplace_back(std::move(rec));
        }
    }
};

// ---------------------------------------------------------------------------------------------- H2
struct RouteLevel {
    int level;            ///< level being searched (0 = bottom)
    size_t predicted;     ///< position predicted by the level above (already capped by the next intercept)
    size_t found;         ///< index (within the level) of the segment the routing settled on
    size_t compared;      ///< linear branch: number of segment keys compared; binary branch: 0
    size_t window_lo;     ///< binary branch: window [window_lo, window_hi) inside the level; linear: first index looked at
    size_t window_hi;
    bool binary;
};

struct RouteTrace {
    bool armed = false;
    std::vector<RouteLevel> levels;
};

inline RouteTrace &route_trace() {
    static thread_local RouteTrace t;
    return t;
}

} // namespace pgm_verif

#define PGM_VERIF_SEGMENTATION_SCOPE(K, n, start, end, epsilon)                                                        \
    ::pgm_verif::SegScope<K> pgm_verif_scope_(n, start, end, epsilon)
#define PGM_VERIF_ADD_POINT(x, y) pgm_verif_scope_.point(x, y)

#define PGM_VERIF_ROUTE_LEVEL(level, predicted, found, compared, wlo, whi, binary)                                     \
    do {                                                                                                               \
        auto &pgm_verif_t_ = ::pgm_verif::route_trace();                                                               \
        if (pgm_verif_t_.armed)                                                                                        \
            pgm_verif_t_.levels.push_back({int(level), size_t(predicted), size_t(found), size_t(compared),             \
                                           size_t(wlo), size_t(whi), bool(binary)});                                   \
    } while (0)
